//! msim - the sync flavours of gdsl under Miri's seeded scheduler.
//!
//! usage: msim <mode> <scenario-seed> [--print]
//!   mode c17: caller threads running mutators, queries, iteration and searches on shared nodes
//!   mode c19: caller threads taking and dropping handles, edges, paths and lookups of shared
//!             nodes, then a concurrent tear-down in which the last handles of every node are
//!             dropped on different threads
//!
//! One execution = one scenario (a pure function of the scenario seed) under one schedule (a
//! pure function of Miri's `-Zmiri-seed`). The interpreter reports what no assertion could:
//! data races (e.g. on a reference count), use after free, deadlocks, leaked allocations.
//! The program itself checks: no call panics, the mirror / symmetry invariant holds once all
//! threads are done, every node answers (no poisoned lock), and every node value and edge value
//! is released exactly once - none while a handle to its node is still held.
//!
//! Exit status: 0 held; 101 a check of this program failed (panic with message); anything Miri
//! reports ends the interpreter with its own non-zero status and an `error:` line.

use std::sync::atomic::{AtomicI64, AtomicUsize, Ordering::Relaxed as SeqCst};
// (every counter below is Relaxed - the alias keeps the code short -: the registry and the trace
// must not create happens-before edges between the caller threads that the library itself does
// not create, or the interpreter's race detector would be blinded by the instrumentation)
use std::sync::Arc;

// ---------------------------------------------------------------------------
// payloads with an exact-release registry (atomics: the registry must not itself order the
// threads more than any payload with interior counters would)

const MAXID: usize = 64;
static LIVE_NODE: [AtomicI64; MAXID] = [const { AtomicI64::new(0) }; MAXID];
static LIVE_EDGE: [AtomicI64; 128] = [const { AtomicI64::new(0) }; 128];
static UNDERFLOW: AtomicI64 = AtomicI64::new(0);
/// order in which the calls of all threads completed (thread * 100 + call index): the trace of
/// the schedule, for the determinism self-test and the distinct-schedules measure
static TRACE: [AtomicUsize; 64] = [const { AtomicUsize::new(0) }; 64];
static TRACE_N: AtomicUsize = AtomicUsize::new(0);
fn trace(tid: usize, i: usize) {
    let at = TRACE_N.fetch_add(1, SeqCst);
    if at < TRACE.len() {
        TRACE[at].store(tid * 100 + i + 1, SeqCst);
    }
}

#[derive(Debug)]
pub struct NV {
    pub id: usize,
    pub prio: u32,
}
impl NV {
    fn new(id: usize, prio: u32) -> NV {
        LIVE_NODE[id].fetch_add(1, SeqCst);
        NV { id, prio }
    }
}
impl Clone for NV {
    fn clone(&self) -> NV {
        NV::new(self.id, self.prio)
    }
}
impl Drop for NV {
    fn drop(&mut self) {
        if LIVE_NODE[self.id].fetch_sub(1, SeqCst) <= 0 {
            UNDERFLOW.fetch_add(1, SeqCst);
        }
    }
}
impl PartialEq for NV {
    fn eq(&self, o: &NV) -> bool {
        self.prio == o.prio
    }
}
impl Eq for NV {}
impl PartialOrd for NV {
    fn partial_cmp(&self, o: &NV) -> Option<std::cmp::Ordering> {
        Some(self.cmp(o))
    }
}
impl Ord for NV {
    fn cmp(&self, o: &NV) -> std::cmp::Ordering {
        self.prio.cmp(&o.prio)
    }
}

#[derive(Debug)]
pub struct EV(pub usize);
impl EV {
    fn new(id: usize) -> EV {
        LIVE_EDGE[id].fetch_add(1, SeqCst);
        EV(id)
    }
}
impl Clone for EV {
    fn clone(&self) -> EV {
        EV::new(self.0)
    }
}
impl Drop for EV {
    fn drop(&mut self) {
        if LIVE_EDGE[self.0].fetch_sub(1, SeqCst) <= 0 {
            UNDERFLOW.fetch_add(1, SeqCst);
        }
    }
}

// ---------------------------------------------------------------------------
// PRNG (SplitMix64): the scenario is a pure function of the scenario seed

struct Rng(u64);
impl Rng {
    fn next(&mut self) -> u64 {
        self.0 = self.0.wrapping_add(0x9E37_79B9_7F4A_7C15);
        let mut z = self.0;
        z = (z ^ (z >> 30)).wrapping_mul(0xBF58_476D_1CE4_E5B9);
        z = (z ^ (z >> 27)).wrapping_mul(0x94D0_49BB_1331_11EB);
        z ^ (z >> 31)
    }
    fn below(&mut self, n: usize) -> usize {
        (self.next() % n as u64) as usize
    }
    fn range(&mut self, a: usize, b: usize) -> usize {
        a + self.below(b - a + 1)
    }
}

#[derive(Clone, Debug)]
enum Op {
    Connect(usize, usize, usize),
    TryConnect(usize, usize, usize),
    Disconnect(usize, usize),
    Isolate(usize),
    /// degrees, predicates and neighbour lookups (a found node is a new strong handle)
    Query(usize, usize),
    /// collect the node's edges (each holds two strong handles and a value), then let go
    Snapshot(usize),
    /// a path search; the path (edges, handles) is dropped on this thread
    Search(usize, usize, u8),
    /// take another handle of the node and drop it later on this thread
    CloneHandle(usize),
    /// fetch the node from the shared container
    Get(usize),
}

#[derive(Clone, Debug)]
struct Scenario {
    directed: bool,
    n: usize,
    prios: Vec<u32>,
    initial: Vec<(usize, usize, usize)>,
    tasks: Vec<Vec<Op>>,
    /// which thread drops which of the last handles during tear-down
    teardown: Vec<Vec<usize>>,
    /// every node is created on a thread of its own (which ends before the scenario starts)
    born_elsewhere: bool,
}

fn generate(mode: &str, seed: u64) -> Scenario {
    let mut r = Rng(seed ^ 0x6d73_696d);
    let directed = r.below(2) == 0;
    let n = r.range(1, 4);
    let prios = (0..n).map(|_| r.below(3) as u32).collect();
    let mut next_edge = 0usize;
    let mut initial = Vec::new();
    for _ in 0..r.below(5) {
        next_edge += 1;
        initial.push((r.below(n), r.below(n), next_edge));
    }
    let nt = r.range(2, 3);
    let mut tasks = Vec::new();
    for _ in 0..nt {
        let k = r.range(1, if mode == "c17" { 4 } else { 5 });
        let mut ops = Vec::new();
        for _ in 0..k {
            let (u, v) = (r.below(n), r.below(n));
            next_edge += 1;
            let pick = r.below(100);
            let op = if mode == "c17" {
                match pick {
                    0..=19 => Op::Connect(u, v, next_edge),
                    20..=34 => Op::TryConnect(u, v, next_edge),
                    35..=54 => Op::Disconnect(u, v),
                    55..=64 => Op::Isolate(u),
                    65..=79 => Op::Query(u, v),
                    80..=89 => Op::Snapshot(u),
                    _ => Op::Search(u, v, r.below(4) as u8),
                }
            } else {
                match pick {
                    0..=9 => Op::Connect(u, v, next_edge),
                    10..=14 => Op::TryConnect(u, v, next_edge),
                    15..=24 => Op::Disconnect(u, v),
                    25..=29 => Op::Isolate(u),
                    30..=44 => Op::Query(u, v),
                    45..=59 => Op::Snapshot(u),
                    60..=69 => Op::Search(u, v, r.below(4) as u8),
                    70..=89 => Op::CloneHandle(u),
                    _ => Op::Get(u),
                }
            };
            ops.push(op);
        }
        tasks.push(ops);
    }
    // tear-down: two handles of every node, each dropped by a seeded thread
    let mut teardown = vec![Vec::new(); nt];
    for u in 0..n {
        for _ in 0..2 {
            let t = r.below(nt);
            teardown[t].push(u);
        }
    }
    let born_elsewhere = r.below(4) == 0;
    Scenario { directed, n, prios, initial, tasks, teardown, born_elsewhere }
}

// ---------------------------------------------------------------------------

macro_rules! flavour {
    ($name:ident, $m:ident, $directed:tt) => {
        mod $name {
            use super::*;
            pub type N = gdsl::$m::Node<usize, NV, EV>;
            pub type G = gdsl::$m::Graph<usize, NV, EV>;

            /// the result of a mutating call as text (what the serialisability check compares)
            fn exec(nodes: &[N], g: &G, held: &mut Vec<N>, op: &Op) -> String {
                match op {
                    Op::Connect(u, v, e) => {
                        nodes[*u].connect(&nodes[*v], EV::new(*e));
                        return "ok".into();
                    }
                    Op::TryConnect(u, v, e) => {
                        return match nodes[*u].try_connect(&nodes[*v], EV::new(*e)) {
                            Ok(()) => "ok".into(),
                            Err(gdsl::error::Error::EdgeAlreadyExists) => "exists".into(),
                            Err(_) => "other-error".into(),
                        };
                    }
                    Op::Disconnect(u, v) => {
                        return match nodes[*u].disconnect(v) {
                            Ok(e) => format!("val:{}", e.0),
                            Err(gdsl::error::Error::EdgeNotFound) => "notfound".into(),
                            Err(_) => "other-error".into(),
                        };
                    }
                    Op::Isolate(u) => {
                        nodes[*u].isolate();
                        return "ok".into();
                    }
                    Op::Query(u, v) => {
                        let x = &nodes[*u];
                        let _ = x.is_orphan();
                        let _ = x.is_connected(v);
                        flavour!(@queries $directed, x, v, held);
                    }
                    Op::Snapshot(u) => {
                        let edges: Vec<_> = flavour!(@iter $directed, nodes[*u]).collect();
                        for e in &edges {
                            // handles taken from edges are usable
                            let _ = e.0.key();
                            let _ = e.1.value().prio;
                        }
                        drop(edges);
                    }
                    Op::Search(u, v, kind) => {
                        let x = &nodes[*u];
                        match kind % 4 {
                            0 => {
                                if let Some(p) = x.bfs().target(v).search_path() {
                                    let _ = p.len();
                                }
                            }
                            1 => {
                                if let Some(t) = x.dfs().target(v).search() {
                                    held.push(t);
                                }
                            }
                            2 => {
                                let _ = flavour!(@order $directed, x).search_nodes();
                            }
                            _ => {
                                if let Some(p) = x.pfs().target(v).search_path() {
                                    let _ = p.to_vec_nodes();
                                }
                            }
                        }
                    }
                    Op::CloneHandle(u) => held.push(nodes[*u].clone()),
                    Op::Get(u) => {
                        if let Some(x) = g.get(u) {
                            held.push(x);
                        }
                    }
                }
                String::new()
            }

            fn lists(x: &N) -> (Vec<(usize, usize)>, Vec<(usize, usize)>) {
                flavour!(@lists $directed, x)
            }

            pub fn run(sc: &Scenario) {
                let nodes: Vec<N> = (0..sc.n)
                    .map(|k| {
                        let v = NV::new(k, sc.prios[k]);
                        if sc.born_elsewhere {
                            std::thread::spawn(move || gdsl::$m::Node::new(k, v)).join().unwrap()
                        } else {
                            gdsl::$m::Node::new(k, v)
                        }
                    })
                    .collect();
                for (u, v, e) in &sc.initial {
                    nodes[*u].connect(&nodes[*v], EV::new(*e));
                }
                let mut g = G::new();
                for x in &nodes {
                    g.insert(x.clone());
                }
                let g = Arc::new(g);
                // phase 1: concurrent calls; every node stays alive (main keeps `nodes`)
                let mut joins = Vec::new();
                for (tid, ops) in sc.tasks.iter().cloned().enumerate() {
                    let mine: Vec<N> = nodes.iter().cloned().collect();
                    let g = g.clone();
                    joins.push(std::thread::spawn(move || {
                        let mut held = Vec::new();
                        let mut results = Vec::new();
                        for (i, op) in ops.iter().enumerate() {
                            results.push(exec(&mine, &g, &mut held, op));
                            trace(tid, i);
                        }
                        // handles found, fetched and cloned on this thread die on this thread
                        drop(held);
                        drop(mine);
                        results
                    }));
                }
                for (tid, j) in joins.into_iter().enumerate() {
                    match j.join() {
                        Err(_) => panic!("VERDICT a call panicked on a caller thread"),
                        Ok(results) => {
                            // the history: what every mutating call returned, per thread in program order
                            for (i, r) in results.iter().enumerate() {
                                if !r.is_empty() {
                                    println!("HIST {tid} {i} {} {r}", op_text(&sc.tasks[tid][i]));
                                }
                            }
                        }
                    }
                }
                for u in 0..sc.n {
                    let (out, inn) = lists(&nodes[u]);
                    println!("FINAL {u} out={out:?} in={inn:?}");
                }
                // quiescence: every node answers, and both endpoints describe one edge set
                for u in 0..sc.n {
                    let (out, inn) = lists(&nodes[u]);
                    for (v, e) in &out {
                        let back = lists(&nodes[*v]);
                        let mirror = if $directed { &back.1 } else { &back.0 };
                        let here = out.iter().filter(|x| x.0 == *v && x.1 == *e).count();
                        let there = mirror.iter().filter(|x| x.0 == u && x.1 == *e).count();
                        let ok = if !$directed && *v == u { here % 2 == 0 } else { here == there };
                        if !ok {
                            panic!("VERDICT quiescent invariant: node {u} lists edge {e} to {v} {here} time(s), node {v} lists it back {there} time(s)");
                        }
                    }
                    for (v, e) in &inn {
                        let back = lists(&nodes[*v]);
                        let there = back.0.iter().filter(|x| x.0 == u && x.1 == *e).count();
                        let here = inn.iter().filter(|x| x.0 == *v && x.1 == *e).count();
                        if $directed && here != there {
                            panic!("VERDICT quiescent invariant: node {u} lists incoming edge {e} from {v} {here} time(s), node {v} lists it {there} time(s)");
                        }
                    }
                }
                for u in 0..sc.n {
                    if LIVE_NODE[u].load(SeqCst) != 1 {
                        panic!("VERDICT node value {u} has {} live instances while handles to its node are held", LIVE_NODE[u].load(SeqCst));
                    }
                }
                // phase 2: tear-down. Every node is isolated first (no node may outlive a
                // neighbour it still lists); then the container and the last handles go, the
                // handles of one node on different threads at the same time.
                for x in &nodes {
                    x.isolate();
                }
                drop(g);
                let mut joins = Vec::new();
                for share in &sc.teardown {
                    let mine: Vec<N> = share.iter().map(|u| nodes[*u].clone()).collect();
                    joins.push(std::thread::spawn(move || {
                        for x in mine {
                            let _ = x.is_orphan();
                            drop(x);
                        }
                    }));
                }
                drop(nodes);
                for j in joins {
                    if j.join().is_err() {
                        panic!("VERDICT a call panicked during tear-down");
                    }
                }
            }
        }
    };
    (@order true, $x:ident) => { $x.postorder() };
    (@order false, $x:ident) => { $x.order().post() };
    (@iter true, $x:expr) => { $x.iter_out() };
    (@iter false, $x:expr) => { $x.iter() };
    (@queries true, $x:ident, $v:ident, $held:ident) => {
        let _ = $x.out_degree();
        let _ = $x.in_degree();
        let _ = $x.is_root();
        let _ = $x.is_leaf();
        if let Some(t) = $x.find_outbound($v) { $held.push(t); }
        if let Some(t) = $x.find_inbound($v) { $held.push(t); }
    };
    (@queries false, $x:ident, $v:ident, $held:ident) => {
        let _ = $x.degree();
        if let Some(t) = $x.find_adjacent($v) { $held.push(t); }
    };
    (@lists true, $x:ident) => {
        (
            $x.iter_out().map(|e| (*e.1.key(), (e.2).0)).collect(),
            $x.iter_in().map(|e| (*e.0.key(), (e.2).0)).collect(),
        )
    };
    (@lists false, $x:ident) => {
        ($x.iter().map(|e| (*e.1.key(), (e.2).0)).collect(), Vec::new())
    };
}

flavour!(di, sync_digraph, true);
flavour!(un, sync_ungraph, false);

// ---------------------------------------------------------------------------
// scenario text (replay files carry it; the minimiser edits it):
//   dir=1;n=3;prios=0.1.2;init=0.1.1,1.2.2;tasks=C.0.1.5,I.0/Q.1.0;down=0.1/1.0

fn op_text(op: &Op) -> String {
    match op {
        Op::Connect(u, v, e) => format!("C.{u}.{v}.{e}"),
        Op::TryConnect(u, v, e) => format!("T.{u}.{v}.{e}"),
        Op::Disconnect(u, v) => format!("D.{u}.{v}"),
        Op::Isolate(u) => format!("I.{u}"),
        Op::Query(u, v) => format!("Q.{u}.{v}"),
        Op::Snapshot(u) => format!("S.{u}"),
        Op::Search(u, v, k) => format!("F.{u}.{v}.{k}"),
        Op::CloneHandle(u) => format!("H.{u}"),
        Op::Get(u) => format!("G.{u}"),
    }
}

fn to_text(sc: &Scenario) -> String {
    let join = |v: Vec<String>, sep: &str| v.join(sep);
    format!(
        "dir={};born={};n={};prios={};init={};tasks={};down={}",
        sc.directed as u8,
        sc.born_elsewhere as u8,
        sc.n,
        join(sc.prios.iter().map(|p| p.to_string()).collect(), "."),
        join(sc.initial.iter().map(|(u, v, e)| format!("{u}.{v}.{e}")).collect(), ","),
        join(sc.tasks.iter().map(|t| join(t.iter().map(op_text).collect(), ",")).collect(), "/"),
        join(sc.teardown.iter().map(|t| join(t.iter().map(|u| u.to_string()).collect(), ".")).collect(), "/"),
    )
}

fn from_text(t: &str) -> Option<Scenario> {
    let mut f = std::collections::BTreeMap::new();
    for part in t.split(';') {
        let (k, v) = part.split_once('=')?;
        f.insert(k.to_string(), v.to_string());
    }
    let nums = |s: &str| -> Option<Vec<usize>> { if s.is_empty() { Some(Vec::new()) } else { s.split('.').map(|x| x.parse().ok()).collect() } };
    let n: usize = f.get("n")?.parse().ok()?;
    let prios: Vec<u32> = nums(f.get("prios")?)?.into_iter().map(|x| x as u32).collect();
    let mut initial = Vec::new();
    for e in f.get("init")?.split(',').filter(|x| !x.is_empty()) {
        let v = nums(e)?;
        initial.push((*v.first()?, *v.get(1)?, *v.get(2)?));
    }
    let mut tasks = Vec::new();
    for t in f.get("tasks")?.split('/') {
        let mut ops = Vec::new();
        for o in t.split(',').filter(|x| !x.is_empty()) {
            let (c, rest) = o.split_once('.')?;
            let v = nums(rest)?;
            let g = |i: usize| v.get(i).copied();
            ops.push(match c {
                "C" => Op::Connect(g(0)?, g(1)?, g(2)?),
                "T" => Op::TryConnect(g(0)?, g(1)?, g(2)?),
                "D" => Op::Disconnect(g(0)?, g(1)?),
                "I" => Op::Isolate(g(0)?),
                "Q" => Op::Query(g(0)?, g(1)?),
                "S" => Op::Snapshot(g(0)?),
                "F" => Op::Search(g(0)?, g(1)?, g(2)? as u8),
                "H" => Op::CloneHandle(g(0)?),
                "G" => Op::Get(g(0)?),
                _ => return None,
            });
        }
        tasks.push(ops);
    }
    let mut teardown = Vec::new();
    for t in f.get("down")?.split('/') {
        teardown.push(nums(t)?);
    }
    if prios.len() != n || n == 0 || n > MAXID {
        return None;
    }
    let ok = |u: usize| u < n;
    for (u, v, e) in &initial {
        if !ok(*u) || !ok(*v) || *e >= LIVE_EDGE.len() {
            return None;
        }
    }
    Some(Scenario { directed: f.get("dir")? == "1", n, prios, initial, tasks, teardown, born_elsewhere: f.get("born").map(|b| b == "1").unwrap_or(false) })
}

fn main() {
    let args: Vec<String> = std::env::args().collect();
    if args.len() < 3 {
        eprintln!("usage: msim <c17|c19> <scenario-seed> [--print] | msim scenario <text>");
        std::process::exit(2);
    }
    let mode = args[1].as_str();
    let sc = if mode == "scenario" {
        match from_text(&args[2]) {
            Some(sc) => sc,
            None => {
                eprintln!("msim: scenario text does not parse");
                std::process::exit(2);
            }
        }
    } else {
        let seed: u64 = args[2].parse().unwrap_or_else(|_| std::process::exit(2));
        generate(mode, seed)
    };
    if args.iter().any(|a| a == "--print") {
        println!("SCENARIO {}", to_text(&sc));
    }
    if sc.directed {
        di::run(&sc);
    } else {
        un::run(&sc);
    }
    // everything the program held is gone: every value released exactly once
    for (id, c) in LIVE_NODE.iter().enumerate() {
        let c = c.load(SeqCst);
        if c != 0 {
            panic!("VERDICT node value {id}: {c} instance(s) still alive after the last handle was dropped");
        }
    }
    for (id, c) in LIVE_EDGE.iter().enumerate() {
        let c = c.load(SeqCst);
        if c != 0 {
            panic!("VERDICT edge value {id}: {c} instance(s) still alive after the last handle was dropped");
        }
    }
    if UNDERFLOW.load(SeqCst) != 0 {
        panic!("VERDICT a value was released more often than it was created");
    }
    let n = TRACE_N.load(SeqCst).min(TRACE.len());
    let t: Vec<String> = (0..n).map(|i| TRACE[i].load(SeqCst).to_string()).collect();
    println!("TRACE {}", t.join(","));
    println!("HELD");
}
