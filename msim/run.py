#!/usr/bin/env python3
"""Second simulator stage of the C17 and C19 checks: the sync flavours under Miri's seeded scheduler.

usage: run.py <C17|C19> <quick|thorough> <seed>        sweep; merges its counts into evidence/<ID>.json
       run.py replay <file>                            re-execute one replay file (exit 1 if it reproduces)

One execution = one scenario (a pure function of the scenario seed, or the scenario text of a
replay file) under one schedule (a pure function of -Zmiri-seed and -Zmiri-preemption-rate).
The interpreter is started directly (the command cargo-miri would run is taken from one verbose
cargo invocation, which also builds the crate from /repo's working tree), so that every flag is
an explicit argument and nothing is inherited from a build-time environment.

exit 0 held on everything explored; 1 violation (line printed); 2 harness error.
"""
import concurrent.futures, json, os, re, shlex, subprocess, sys, time

HERE = os.path.dirname(os.path.abspath(__file__))
ROOT = os.environ.get("VERIF_ROOT", os.path.dirname(HERE))
REPO = os.environ.get("GDSL_REPO", "/repo")
SENT_SEED, SENT_A, SENT_B = "-Zmiri-seed=424242", "SENTINEL_MODE", "SENTINEL_ARG"
RATES = ["0.0", "0.01", "0.05", "0.1", "0.3", "0.6"]
MASK = (1 << 64) - 1


def mix(x):
    x = (x + 0x9E3779B97F4A7C15) & MASK
    x = ((x ^ (x >> 30)) * 0xBF58476D1CE4E5B9) & MASK
    x = ((x ^ (x >> 27)) * 0x94D049BB133111EB) & MASK
    return x ^ (x >> 31)


def harness_error(msg):
    print(f"HARNESS-ERROR: {msg}", file=sys.stderr)
    sys.exit(2)


def build_template():
    """Builds msim for Miri from the current sources and returns the interpreter command line."""
    shadow = os.path.join(HERE, "gdsl-shadow", "Cargo.toml")
    text = open(shadow).read()
    want = f'path = "{REPO}/src/lib.rs"'
    if want not in text:
        open(shadow, "w").write(re.sub(r'path = ".*/src/lib.rs"', want, text))
    env = dict(os.environ, MIRIFLAGS=SENT_SEED, CARGO_NET_OFFLINE="true")
    p = subprocess.run(
        ["cargo", "+nightly", "miri", "run", "--offline", "-v", "--", SENT_A, SENT_B],
        cwd=HERE, env=env, capture_output=True, text=True, timeout=1800,
    )
    m = re.search(r"^\[cargo-miri runner\] running command: (.*)$", p.stderr, re.M)
    if not m:
        tail = "\n".join(p.stderr.splitlines()[-30:])
        harness_error(f"msim did not build under Miri (or the runner line was not printed):\n{tail}")
    cmd = m.group(1)
    if cmd.count(f'"{SENT_SEED}"') != 1 or f'"{SENT_A}" "{SENT_B}"' not in cmd:
        harness_error("the interpreter command line has an unexpected shape: " + cmd[:400])
    return cmd


def command(tmpl, flags, args):
    c = tmpl.replace(f'"{SENT_SEED}"', " ".join(shlex.quote(f) for f in flags))
    return c.replace(f'"{SENT_A}" "{SENT_B}"', " ".join(shlex.quote(a) for a in args))


def parse_scenario(text):
    f = dict(part.split("=", 1) for part in text.split(";"))
    init = [tuple(int(x) for x in e.split(".")) for e in f["init"].split(",") if e]
    return f["dir"] == "1", int(f["n"]), init


def serialisable(text, out):
    """Is there a sequential order of the mutating calls (program order kept per thread) that
    yields every returned value and the final adjacency? Reference model: a multigraph as a
    list of (value, u, v) in creation order - the sequential meaning C03 states."""
    directed, n, init = parse_scenario(text)
    hist = {}
    for m in re.finditer(r"^HIST (\d+) (\d+) (\S+) (\S+)$", out, re.M):
        hist.setdefault(int(m.group(1)), []).append((int(m.group(2)), m.group(3), m.group(4)))
    threads = [[(o, r) for _, o, r in sorted(v)] for _, v in sorted(hist.items())]
    final = {}
    for m in re.finditer(r"^FINAL (\d+) out=\[(.*?)\] in=\[(.*?)\]$", out, re.M):
        pairs = lambda t: [tuple(int(x) for x in p.split(",")) for p in re.findall(r"\((\d+, \d+)\)", t)]
        final[int(m.group(1))] = (pairs(m.group(2)), pairs(m.group(3)))
    if len(final) != n:
        return None, "the final adjacency was not printed"

    def matches(edges):
        for u in range(n):
            if directed:
                o = [(v, val) for val, a, v in edges if a == u]
                i = [(a, val) for val, a, v in edges if v == u]
                if (o, i) != final[u]:
                    return False
            else:
                adj = sorted([(v, val) for val, a, v in edges if a == u] + [(a, val) for val, a, v in edges if v == u])
                if adj != sorted(final[u][0]):
                    return False
        return True

    def between(edges, u, k):
        return [e for e in edges if (e[1] == u and e[2] == k) or (not directed and e[1] == k and e[2] == u)]

    def step(edges, op, res):
        c, *a = op.split(".")
        a = [int(x) for x in a]
        if c == "C":
            return edges + ((a[2], a[0], a[1]),) if res == "ok" else None
        if c == "T":
            has = bool(between(edges, a[0], a[1]))
            if has:
                return edges if res == "exists" else None
            return edges + ((a[2], a[0], a[1]),) if res == "ok" else None
        if c == "D":
            cand = between(edges, a[0], a[1])
            if not cand:
                return edges if res == "notfound" else None
            if not res.startswith("val:"):
                return None
            val = int(res[4:])
            hit = [e for e in cand if e[0] == val]
            if not hit:
                return None
            e = list(edges)
            e.remove(hit[0])
            return tuple(e)
        if c == "I":
            return tuple(e for e in edges if e[1] != a[0] and e[2] != a[0]) if res == "ok" else None
        return None

    seen = set()
    stack = [(tuple(0 for _ in threads), tuple((val, u, v) for u, v, val in init))]
    budget = 200000
    while stack and budget > 0:
        budget -= 1
        pos, edges = stack.pop()
        if (pos, edges) in seen:
            continue
        seen.add((pos, edges))
        if all(p == len(t) for p, t in zip(pos, threads)):
            if matches(edges):
                return True, ""
            continue
        for t, p in enumerate(pos):
            if p < len(threads[t]):
                e2 = step(edges, *threads[t][p])
                if e2 is not None:
                    stack.append((pos[:t] + (p + 1,) + pos[t + 1:], e2))
    if budget <= 0:
        return None, "search budget exhausted"
    calls = [[f"{o}={r}" for o, r in t] for t in threads]
    return False, f"no sequential order of the calls {calls} yields the returned values and the final adjacency {final}"


def classify(rc, out, err, timed_out):
    """None if the execution held; (class, detail) for a violation; ('harness', ..) otherwise."""
    if timed_out:
        return ("hang", "the execution did not end within the time limit")
    if rc == 0 and "HELD" in out:
        text = scenario_text(out)
        if text:
            ok, why = serialisable(text, out)
            if ok is False:
                return ("not-serialisable", why)
        return None
    text = err + "\n" + out
    m = re.search(r"VERDICT ([^\n]*)", text)
    first_error = next((l for l in err.splitlines() if l.startswith("error")), "")
    if "Data race detected" in text:
        return ("data-race", first_error)
    if "deadlock" in first_error.lower():
        return ("deadlock", first_error)
    if "unsupported operation" in first_error:
        return ("harness", first_error)
    if "Undefined Behavior" in text:
        return ("undefined-behaviour", first_error)
    if "memory leaked" in text or "leaked" in first_error:
        return ("leak", first_error or "the interpreter reports leaked allocations at exit")
    if m:
        d = m.group(1)
        cls = "quiescent-invariant" if "quiescent" in d else "panic" if "panicked" in d else "premature-or-missing-release"
        where = re.search(r"panicked at ([^\n]*)\n([^\n]*)", text)
        extra = f" (first panic: {where.group(1)} {where.group(2)})" if where and cls == "panic" else ""
        return (cls, d + extra)
    if "panicked at" in text:
        w = re.search(r"panicked at ([^\n]*)\n([^\n]*)", text)
        return ("panic", f"{w.group(1)} {w.group(2)}" if w else "a thread panicked")
    return ("harness", f"exit status {rc}: {(first_error or err[-300:])}")


def execute(tmpl, mseed, rate, args, limit=300):
    flags = [f"-Zmiri-seed={mseed}", f"-Zmiri-preemption-rate={rate}"]
    try:
        p = subprocess.run(command(tmpl, flags, args), shell=True, capture_output=True, text=True, timeout=limit)
        return classify(p.returncode, p.stdout, p.stderr, False), p.stdout
    except subprocess.TimeoutExpired:
        return classify(None, "", "", True), ""


def scenario_text(out):
    m = re.search(r"^SCENARIO (\S+)$", out, re.M)
    return m.group(1) if m else None


def shrink_candidates(text):
    f = dict(part.split("=", 1) for part in text.split(";"))
    tasks = [[o for o in t.split(",") if o] for t in f["tasks"].split("/")]
    init = [e for e in f["init"].split(",") if e]
    down = f["down"].split("/")
    def build(tasks=tasks, init=init, down=down):
        g = dict(f)
        g["tasks"] = "/".join(",".join(t) for t in tasks)
        g["init"] = ",".join(init)
        g["down"] = "/".join(down)
        return ";".join(f"{k}={g[k]}" for k in ["dir", "born", "n", "prios", "init", "tasks", "down"] if k in g)
    out = []
    for i in range(len(tasks)):
        if len(tasks) > 1:
            out.append(build(tasks=tasks[:i] + tasks[i + 1:]))
    for i, t in enumerate(tasks):
        for j in range(len(t)):
            out.append(build(tasks=tasks[:i] + [t[:j] + t[j + 1:]] + tasks[i + 1:]))
    for i in range(len(init)):
        out.append(build(init=init[:i] + init[i + 1:]))
    if any(d for d in down):
        out.append(build(down=["" for _ in down]))
    if f.get("born") == "1":
        g0 = dict(f)
        g0["born"] = "0"
        out.append(";".join(f"{k}={g0[k]}" for k in ["dir", "born", "n", "prios", "init", "tasks", "down"]))
    return out


def size(text):
    return len(re.findall(r"[A-Z]\.", text)) * 4 + text.count(",") + text.count("/") + len(text) // 50 + (3 if "born=1" in text else 0)


def minimise(tmpl, text, cls, mseed, rate, budget_s):
    t0 = time.time()
    best = (text, mseed, rate)
    improved = True
    while improved and time.time() - t0 < budget_s:
        improved = False
        for cand in shrink_candidates(best[0]):
            if time.time() - t0 > budget_s or size(cand) >= size(best[0]):
                continue
            tries = [(best[1], best[2])] + [(s, r) for s in range(6) for r in ("0.1", "0.5")]
            with concurrent.futures.ThreadPoolExecutor(max_workers=13) as ex:
                res = list(ex.map(lambda sr: (sr, execute(tmpl, sr[0], sr[1], ["scenario", cand, "--print"], 120)[0]), tries))
            hit = next((sr for sr, v in res if v and v[0] == cls), None)
            if hit:
                best = (cand, hit[0], hit[1])
                improved = True
                break
    return best


def write_replay(pid, mode, vio, text, mseed, rate, seed, index):
    os.makedirs(os.path.join(ROOT, "replay"), exist_ok=True)
    path = os.path.join(ROOT, "replay", f"{pid}-msim-{seed}-{index}.json")
    json.dump({
        "property": pid, "engine": "msim", "mode": mode, "seed": seed, "run": index,
        "violation": {"class": vio[0], "detail": vio[1]},
        "scenario": text, "miri_seed": mseed, "preemption_rate": rate,
        "how_to_read": "scenario: dir (1 directed), born (1: every node created on a thread of its own), n nodes, prios, init edges u.v.value, tasks (one per caller thread; C connect u.v.value, T try_connect, D disconnect u.key, I isolate, Q queries u.key, S snapshot of u's edges, F search u.target.kind, H clone a handle, G get from the shared container), down = which thread drops which last handles; the schedule is the one Miri derives from miri_seed and preemption_rate",
    }, open(path, "w"), indent=1)
    return path


def replay(path):
    d = json.load(open(path))
    tmpl = build_template()
    vio, _ = execute(tmpl, d["miri_seed"], d["preemption_rate"], ["scenario", d["scenario"], "--print"])
    if vio and vio[0] == "harness":
        harness_error(vio[1])
    if vio:
        print(f"VIOLATION property={d['property']} replay={path}")
        print(f"  class={vio[0]} detail={vio[1]}")
        return 1
    print(f"replay of {path}: no violation")
    return 0


def sweep(pid, tier, seed):
    mode = {"C17": "c17", "C19": "c19"}[pid]
    t0 = time.time()
    tmpl = build_template()
    n = int(os.environ.get("MSIM_RUNS", "0")) or (192 if tier == "quick" else 6000)
    workers = int(os.environ.get("VERIF_WORKERS", "0")) or os.cpu_count() or 4
    jobs = []
    for i in range(n):
        sseed = mix((seed * 1000003 + i) & MASK) >> 1
        # several schedules per scenario: scenario index i // 3, schedule index i
        sseed = mix((seed * 1000003 + i // 3) & MASK) >> 1
        jobs.append((i, sseed, i, RATES[i % len(RATES)]))
    results = {}
    classes = {}
    first = None
    with concurrent.futures.ThreadPoolExecutor(max_workers=workers) as ex:
        futs = {ex.submit(execute, tmpl, mseed, rate, [mode, str(sseed), "--print"]): (i, sseed, mseed, rate) for i, sseed, mseed, rate in jobs}
        for fu in concurrent.futures.as_completed(futs):
            i, sseed, mseed, rate = futs[fu]
            vio, out = fu.result()
            tr = re.search(r"^TRACE (\S*)$", out, re.M)
            results[i] = (vio, scenario_text(out), sseed, mseed, rate, tr.group(1) if tr else None)
    harness = [(i, r) for i, r in sorted(results.items()) if r[0] and r[0][0] == "harness"]
    if harness:
        harness_error(f"execution {harness[0][0]} (scenario seed {harness[0][1][2]}, miri seed {harness[0][1][3]}): {harness[0][1][0][1]}")
    bad = [(i, r) for i, r in sorted(results.items()) if r[0]]
    texts = set(r[1] for r in results.values() if r[1])
    schedules = set((r[1], r[5]) for r in results.values() if r[1] and r[5] is not None)
    stage = {
        "engine": "msim: the shipped sync flavours (no verification cfg) on std's locks, interpreted by Miri; schedule = f(-Zmiri-seed, -Zmiri-preemption-rate)",
        "executions": n,
        "distinct_scenarios": len(texts),
        "distinct_scenario_x_completion_order": len(schedules),
        "schedules_per_scenario": 3,
        "preemption_rates": RATES,
        "violations": len(bad),
        "wall_s": round(time.time() - t0, 1),
        "executions_per_hour": int(n / max(time.time() - t0, 0.001) * 3600),
        "detects": ["data race (e.g. on a reference count or a list outside its lock)", "use after free / other undefined behaviour", "deadlock", "leaked allocation", "panic on a caller thread", "mirror/symmetry at quiescence", "value released twice, early or never", "returned values and final adjacency that no sequential order of the mutating calls explains"],
        "samples": sorted(texts)[:3],
    }
    merge_evidence(pid, stage)
    if not bad:
        print(f"OK property={pid} stage=msim tier={tier} seed={seed} executions={n} distinct_scenarios={len(texts)} wall={stage['wall_s']}s")
        return 0
    i, (vio, text, sseed, mseed, rate, _) = bad[0]
    if text is None:
        harness_error(f"execution {i} failed ({vio}) before printing its scenario")
    best = minimise(tmpl, text, vio[0], mseed, rate, int(os.environ.get("GSIM_MIN_BUDGET_S", "0")) or (40 if tier == "quick" else 120))
    v2, _ = execute(tmpl, best[1], best[2], ["scenario", best[0], "--print"])
    if not v2 or v2[0] != vio[0]:
        best, v2 = (text, mseed, rate), vio
        # the generated scenario run from its text (same program path as a replay)
        v3, _ = execute(tmpl, mseed, rate, ["scenario", text, "--print"])
        if not v3 or v3[0] == "harness":
            harness_error(f"violation {vio} of execution {i} does not reproduce from its scenario text")
        v2 = v3
    path = write_replay(pid, mode, v2, best[0], best[1], best[2], seed, i)
    print(f"VIOLATION property={pid} replay={path}")
    print(f"  class={v2[0]} detail={v2[1]}")
    print(f"  scenario={best[0]} miri_seed={best[1]} preemption_rate={best[2]} ({len(bad)} of {n} executions failed)")
    return 1


def selftest():
    """Determinism of the second simulator: the same (scenario, Miri seed, rate) executed twice,
    in separate interpreter processes running side by side, must print the same history, final
    adjacency and completion order; and different Miri seeds must give different completion
    orders for at least some scenarios (the schedule really is decided by the seed)."""
    tmpl = build_template()
    combos = [(mode, mix(1000 + i) >> 1, s, r) for i, mode in enumerate(["c17", "c19"] * 6) for s, r in [(1, "0.1"), (2, "0.5")]]
    def run(c):
        mode, sseed, mseed, rate = c
        flags = [f"-Zmiri-seed={mseed}", f"-Zmiri-preemption-rate={rate}"]
        p = subprocess.run(command(tmpl, flags, [mode, str(sseed), "--print"]), shell=True, capture_output=True, text=True, timeout=600)
        return p.returncode, p.stdout
    with concurrent.futures.ThreadPoolExecutor(max_workers=16) as ex:
        first = list(ex.map(run, combos))
        second = list(ex.map(run, list(reversed(combos))))[::-1]
    bad = [c for c, a, b in zip(combos, first, second) if a != b]
    if bad:
        print(f"FAILED selftest-msim: {len(bad)} of {len(combos)} executions differ between two runs, e.g. {bad[0]}")
        return 1
    by_scenario = {}
    for c, (rc, out) in zip(combos, first):
        tr = re.search(r"^TRACE (\S*)$", out, re.M)
        by_scenario.setdefault((c[0], c[1]), set()).add(tr.group(1) if tr else None)
    varied = sum(1 for v in by_scenario.values() if len(v) > 1)
    if varied == 0:
        print("FAILED selftest-msim: no scenario completed its calls in a different order under a different Miri seed")
        return 1
    print(f"OK selftest-msim: {len(combos)} executions repeated in a second process each, outputs identical; {varied} of {len(by_scenario)} scenarios completed their calls in a different order under the other seed")
    return 0


def merge_evidence(pid, stage):
    path = os.path.join(ROOT, "evidence", f"{pid}.json")
    try:
        ev = json.load(open(path))
    except Exception:
        return
    ev.setdefault("coverage", {})["second_simulator_miri"] = stage
    ev["wall_s"] = round(ev.get("wall_s", 0) + stage["wall_s"], 1)
    ev["violations"] = ev.get("violations", 0) + stage["violations"]
    ev.setdefault("assumptions", []).append("msim stage: Miri's scheduler and data-race detector are trusted; scenarios are small (1-4 nodes, 2-3 threads, 1-5 calls each)")
    json.dump(ev, open(path, "w"), indent=1)


if __name__ == "__main__":
    if len(sys.argv) == 2 and sys.argv[1] == "selftest":
        sys.exit(selftest())
    if len(sys.argv) == 3 and sys.argv[1] == "replay":
        sys.exit(replay(sys.argv[2]))
    if len(sys.argv) != 4 or sys.argv[1] not in ("C17", "C19") or sys.argv[2] not in ("quick", "thorough"):
        print(__doc__, file=sys.stderr)
        sys.exit(2)
    sys.exit(sweep(sys.argv[1], sys.argv[2], int(sys.argv[3])))
