//! Payload types used by every workload, with an optional per-run registry of
//! live instances (C19). Key type is `usize`.

use serde::{Deserialize, Deserializer, Serialize, Serializer};
use std::cell::RefCell;
use std::collections::BTreeMap;
use std::sync::{Arc, Mutex};

#[derive(Clone, Copy, Debug, PartialEq, Eq, PartialOrd, Ord)]
pub enum Kind {
    Node,
    Edge,
}

#[derive(Default, Debug)]
pub struct RegState {
    /// live instance count per (kind, id)
    pub live: BTreeMap<(Kind, u64), i64>,
    pub created: u64,
    pub dropped: u64,
    /// ids whose live count went below zero (double drop)
    pub underflow: Vec<(Kind, u64)>,
}

#[derive(Default, Debug)]
pub struct Registry {
    pub st: Mutex<RegState>,
}

impl Registry {
    pub fn live_of(&self, k: Kind, id: u64) -> i64 {
        *self.st.lock().unwrap().live.get(&(k, id)).unwrap_or(&0)
    }
    pub fn total_live(&self, k: Kind) -> i64 {
        self.st
            .lock()
            .unwrap()
            .live
            .iter()
            .filter(|((kk, _), _)| *kk == k)
            .map(|(_, c)| *c)
            .sum()
    }
    pub fn live_ids(&self, k: Kind) -> Vec<u64> {
        self.st
            .lock()
            .unwrap()
            .live
            .iter()
            .filter(|((kk, _), c)| *kk == k && **c > 0)
            .map(|((_, id), _)| *id)
            .collect()
    }
}

thread_local! {
    static REG: RefCell<Option<Arc<Registry>>> = const { RefCell::new(None) };
}

pub fn install_registry(r: Option<Arc<Registry>>) -> Option<Arc<Registry>> {
    REG.with(|x| std::mem::replace(&mut *x.borrow_mut(), r))
}

fn note_new(k: Kind, id: u64) {
    let _ = REG.try_with(|r| {
        if let Some(r) = r.borrow().as_ref() {
            let mut st = r.st.lock().unwrap();
            *st.live.entry((k, id)).or_insert(0) += 1;
            st.created += 1;
        }
    });
}

fn note_drop(k: Kind, id: u64) {
    let _ = REG.try_with(|r| {
        if let Some(r) = r.borrow().as_ref() {
            let mut st = r.st.lock().unwrap();
            let c = st.live.entry((k, id)).or_insert(0);
            *c -= 1;
            if *c < 0 {
                st.underflow.push((k, id));
            }
            st.dropped += 1;
        }
    });
}

/// Node value: `prio` is what priority-first search orders by (ties are
/// possible on purpose), `id` identifies the instance family for the registry.
pub struct NVal {
    pub prio: u32,
    pub id: u64,
    /// Interior-mutable part of the value, as in the crate's own Dijkstra example (a `Cell`
    /// distance the search closure relaxes while the node sits in the priority queue). Zero
    /// everywhere except inside one `Relax` call of the twin engine; ordering and equality are by
    /// `prio + adj`. Atomic only because the sync flavours want `Sync` payloads.
    adj: std::sync::atomic::AtomicI64,
}

impl NVal {
    pub fn new(prio: u32, id: u64) -> Self {
        note_new(Kind::Node, id);
        NVal { prio, id, adj: std::sync::atomic::AtomicI64::new(0) }
    }
    /// the value the node is ordered by
    pub fn eff(&self) -> i64 {
        self.prio as i64 + self.adj.load(std::sync::atomic::Ordering::Relaxed)
    }
    pub fn set_eff(&self, v: i64) {
        self.adj.store(v - self.prio as i64, std::sync::atomic::Ordering::Relaxed);
    }
}
impl std::fmt::Debug for NVal {
    fn fmt(&self, f: &mut std::fmt::Formatter<'_>) -> std::fmt::Result {
        write!(f, "NVal {{ prio: {}, id: {} }}", self.prio, self.id)
    }
}
impl Clone for NVal {
    fn clone(&self) -> Self {
        let c = NVal::new(self.prio, self.id);
        c.set_eff(self.eff());
        c
    }
}
impl Drop for NVal {
    fn drop(&mut self) {
        note_drop(Kind::Node, self.id);
    }
}
impl PartialEq for NVal {
    fn eq(&self, o: &Self) -> bool {
        self.eff() == o.eff()
    }
}
impl Eq for NVal {}
impl PartialOrd for NVal {
    fn partial_cmp(&self, o: &Self) -> Option<std::cmp::Ordering> {
        Some(self.cmp(o))
    }
}
impl Ord for NVal {
    fn cmp(&self, o: &Self) -> std::cmp::Ordering {
        self.eff().cmp(&o.eff())
    }
}
impl std::fmt::Display for NVal {
    fn fmt(&self, f: &mut std::fmt::Formatter<'_>) -> std::fmt::Result {
        write!(f, "n{}p{}", self.id, self.prio)
    }
}
impl Serialize for NVal {
    fn serialize<S: Serializer>(&self, s: S) -> Result<S::Ok, S::Error> {
        (self.prio, self.id).serialize(s)
    }
}
impl<'de> Deserialize<'de> for NVal {
    fn deserialize<D: Deserializer<'de>>(d: D) -> Result<Self, D::Error> {
        let (p, i) = <(u32, u64)>::deserialize(d)?;
        Ok(NVal::new(p, i))
    }
}

/// Edge value: unique per created edge within a run, so that every observed
/// value is attributable to one edge.
#[derive(Debug)]
pub struct EVal(pub u64);

impl EVal {
    pub fn new(id: u64) -> Self {
        note_new(Kind::Edge, id);
        EVal(id)
    }
}
impl Clone for EVal {
    fn clone(&self) -> Self {
        EVal::new(self.0)
    }
}
impl Drop for EVal {
    fn drop(&mut self) {
        note_drop(Kind::Edge, self.0);
    }
}
impl PartialEq for EVal {
    fn eq(&self, o: &Self) -> bool {
        self.0 == o.0
    }
}
impl Eq for EVal {}
impl PartialOrd for EVal {
    fn partial_cmp(&self, o: &Self) -> Option<std::cmp::Ordering> {
        Some(self.cmp(o))
    }
}
impl Ord for EVal {
    fn cmp(&self, o: &Self) -> std::cmp::Ordering {
        self.0.cmp(&o.0)
    }
}
impl std::fmt::Display for EVal {
    fn fmt(&self, f: &mut std::fmt::Formatter<'_>) -> std::fmt::Result {
        write!(f, "e{}", self.0)
    }
}
impl Serialize for EVal {
    fn serialize<S: Serializer>(&self, s: S) -> Result<S::Ok, S::Error> {
        self.0.serialize(s)
    }
}
impl<'de> Deserialize<'de> for EVal {
    fn deserialize<D: Deserializer<'de>>(d: D) -> Result<Self, D::Error> {
        Ok(EVal::new(u64::deserialize(d)?))
    }
}
