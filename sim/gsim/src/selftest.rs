//! Proving the simulator itself: every engine's event-log digest must be a
//! pure function of (seed, engine, run index) — across processes, process
//! counts and chunkings.

use std::process::{Command, Stdio};

const ENGINES: [(&str, &str); 13] = [
    ("hist:contract", "C03/hist:contract"),
    ("hist:mirror", "C01/hist:mirror"),
    ("hist:symmetry", "C02/hist:symmetry"),
    ("conc", "C17/conc"),
    ("conc:mirror", "C01/conc:mirror"),
    ("conc:symmetry", "C02/conc:symmetry"),
    ("inject", "C20/inject"),
    ("scc", "C11/scc"),
    ("roundtrip", "C12/roundtrip"),
    ("untrusted", "C13/untrusted"),
    ("container", "C18/container"),
    ("lifetime", "C19/lifetime"),
    ("twin", "C15/twin"),
];

fn collect(key: &str, tag: &str, seed: u64, total: u64, procs: u64) -> Vec<String> {
    let exe = std::env::current_exe().unwrap();
    let per = (total + procs - 1) / procs;
    let mut children = Vec::new();
    for p in 0..procs {
        let from = p * per;
        let to = ((p + 1) * per).min(total);
        if from >= to {
            break;
        }
        let c = Command::new(&exe)
            .args(["logrun", key, tag, &seed.to_string(), "quick", &from.to_string(), &to.to_string()])
            .stdout(Stdio::piped())
            .stdin(Stdio::null())
            .spawn()
            .expect("spawn logrun");
        children.push(c);
    }
    let mut lines = Vec::new();
    for c in children {
        let out = c.wait_with_output().expect("logrun output");
        if !out.status.success() {
            eprintln!("HARNESS-ERROR: logrun for {key} failed");
            std::process::exit(2);
        }
        lines.extend(String::from_utf8_lossy(&out.stdout).lines().map(|s| s.to_string()));
    }
    lines
}

pub fn determinism() -> i32 {
    let total: u64 = std::env::var("GSIM_DET_RUNS").ok().and_then(|s| s.parse().ok()).unwrap_or(640);
    let seeds = [1u64, 20261004, 987654321];
    let mut bad = 0;
    let mut compared = 0u64;
    for (key, tag) in ENGINES {
        for seed in seeds {
            // 32 processes, 16 processes (other chunking), and one process
            let a = collect(key, tag, seed, total, 32);
            let b = collect(key, tag, seed, total, 16);
            let c = collect(key, tag, seed, total.min(160), 1);
            compared += (a.len() + c.len()) as u64;
            if a.len() != b.len() {
                println!("DIVERGENCE engine={key} seed={seed}: {} vs {} lines", a.len(), b.len());
                bad += 1;
                continue;
            }
            for (i, (x, y)) in a.iter().zip(&b).enumerate() {
                if x != y {
                    println!("DIVERGENCE engine={key} seed={seed} run={i}\n  32 procs: {x}\n  16 procs: {y}");
                    bad += 1;
                    break;
                }
            }
            for (i, (x, y)) in a.iter().zip(&c).enumerate() {
                if x != y {
                    println!("DIVERGENCE engine={key} seed={seed} run={i}\n  32 procs: {x}\n   1 proc : {y}");
                    bad += 1;
                    break;
                }
            }
        }
        println!("determinism engine={key}: {} seeds x {total} runs x 3 process layouts compared", seeds.len());
    }
    if bad == 0 {
        println!("OK selftest-determinism: {compared} run digests compared pairwise, no divergence");
        0
    } else {
        println!("FAILED selftest-determinism: {bad} divergences");
        1
    }
}

/// The stall and crash paths of the batch runner: a run that never returns and a
/// run that kills its process must each be reported as a violation with a replay
/// file, confirmed by re-running that run alone in a fresh process.
pub fn watchdog() -> i32 {
    std::env::set_var("GSIM_STALL_S", "2");
    std::env::set_var("GSIM_REPLAY_TIMEOUT_S", "3");
    let mut bad = 0;
    for (key, want) in [("debug:hang", "hang"), ("debug:crash", "crash"), ("debug:history", "history-dependent")] {
        let p = crate::check::run_part("SELFTEST", key, 7, 2000, crate::runner::Tier::Quick, 60, "n");
        match &p.violation {
            Some((path, v)) if v.class == want && (key != "debug:history" || path.ends_with("-sequence.json")) => {
                println!("watchdog {key}: reported class={} replay={path}", v.class);
                let _ = std::fs::remove_file(path);
            }
            other => {
                println!("watchdog {key}: expected a {want} violation, got {:?}", other.as_ref().map(|x| &x.1));
                bad += 1;
            }
        }
    }
    if bad == 0 {
        println!("OK selftest-watchdog");
        0
    } else {
        1
    }
}
