//! Adapters: the four gdsl flavours behind one harness trait. Everything here
//! goes through gdsl's public API only.

use crate::model::{Closure, SKind, SMode, SearchSpec};
use crate::keys::{kin, kout, SimKey};
use crate::payload::{EVal, NVal};
use std::io::{Read, Write};

pub type ET<N> = (N, N, EVal);

/// Does the flavour's `Edge` have a total order? Decided per flavour at compile time by
/// autoref specialisation, so that a flavour WITHOUT the impls still builds and simply reports
/// "unordered" (which then differs from its twin at run time instead of breaking the build).
pub struct OrdProbe<'a, T>(pub &'a [T]);
pub trait ViaOrd {
    fn order_report(&self) -> (String, Option<Vec<usize>>);
}
pub trait ViaNoOrd {
    fn order_report(&self) -> (String, Option<Vec<usize>>);
}
impl<T: Ord> ViaOrd for &OrdProbe<'_, T> {
    fn order_report(&self) -> (String, Option<Vec<usize>>) {
        let s = self.0;
        let mut idx: Vec<usize> = (0..s.len()).collect();
        idx.sort_by(|i, j| s[*i].cmp(&s[*j]));
        let pair = if s.len() >= 2 {
            let (a, b) = (&s[0], &s[1]);
            format!("{:?} {:?} {} {} max_is_second={}", a.cmp(b), a.partial_cmp(b), a < b, a <= b, std::ptr::eq(std::cmp::max(a, b), b))
        } else {
            String::new()
        };
        (pair, Some(idx))
    }
}
impl<T> ViaNoOrd for OrdProbe<'_, T> {
    fn order_report(&self) -> (String, Option<Vec<usize>>) {
        ("edges of this flavour have no total order".to_string(), None)
    }
}

pub enum SearchOut<N> {
    Node(Option<N>),
    Path(Option<Vec<ET<N>>>),
    Nodes(Vec<N>),
    Edges(Vec<ET<N>>),
}

#[derive(Clone, Copy, Debug, PartialEq, Eq)]
pub enum GErr {
    NotFound,
    Exists,
    Other,
}

#[allow(unreachable_patterns)]
fn gerr(e: gdsl::error::Error) -> GErr {
    match e {
        gdsl::error::Error::EdgeNotFound => GErr::NotFound,
        gdsl::error::Error::EdgeAlreadyExists => GErr::Exists,
        // a variant added later: neither of the two the properties name
        _ => GErr::Other,
    }
}

#[derive(Clone, Copy, Debug, PartialEq, Eq, serde::Serialize, serde::Deserialize, Hash)]
pub struct DotSpec {
    pub g: bool,
    pub nmask: u16,
    pub emask: u16,
}

#[derive(Clone, Copy, Debug, PartialEq, Eq, serde::Serialize, serde::Deserialize, Hash, PartialOrd, Ord)]
pub enum Wire {
    Json,
    Cbor,
    /// through `serde_json::Value` (`to_value` / `from_value`): another Serializer/Deserializer
    JsonValue,
    /// `to_string` / `from_str`
    JsonStr,
}

impl Wire {
    /// the byte format the document is in
    pub fn is_cbor(&self) -> bool {
        matches!(self, Wire::Cbor)
    }
}

pub enum Meth<'a, E> {
    None,
    ForEach(&'a mut dyn FnMut(&E)),
    Filter(&'a mut dyn FnMut(&E) -> bool),
}

pub type Cb<'c, N> = &'c mut dyn FnMut(&N, &N, &EVal) -> bool;
pub type Step<'c, N> = &'c mut dyn FnMut(N, N, EVal) -> bool;

pub trait Flavour: Sized + 'static {
    const NAME: &'static str;
    const DIRECTED: bool;
    const SYNC: bool;
    type Node: Clone;
    type Graph;

    fn node_new(k: usize, v: NVal) -> Self::Node;
    /// the sync flavours: the node is created on a thread of its own (which then ends) and handed
    /// back; the plain flavours (`!Send`): same as `node_new`
    fn node_new_elsewhere(k: usize, v: NVal) -> Self::Node {
        Self::node_new(k, v)
    }
    fn key(n: &Self::Node) -> usize;
    fn prio(n: &Self::Node) -> u32;
    fn vid(n: &Self::Node) -> u64;
    /// the (interior-mutable) value the node is ordered by, and its setter
    fn eff(n: &Self::Node) -> i64;
    fn set_eff(n: &Self::Node, v: i64);
    /// prio through Deref
    fn deref_prio(n: &Self::Node) -> u32;
    fn node_eq(a: &Self::Node, b: &Self::Node) -> bool;
    fn node_cmp(a: &Self::Node, b: &Self::Node) -> std::cmp::Ordering;

    fn connect(u: &Self::Node, v: &Self::Node, e: EVal);
    fn try_connect(u: &Self::Node, v: &Self::Node, e: EVal) -> Result<(), GErr>;
    fn disconnect(u: &Self::Node, k: usize) -> Result<EVal, GErr>;
    fn isolate(u: &Self::Node);

    /// undirected: degree()
    fn out_degree(u: &Self::Node) -> usize;
    /// undirected: degree()
    fn in_degree(u: &Self::Node) -> usize;
    /// undirected: is_orphan()
    fn is_root(u: &Self::Node) -> bool;
    /// undirected: is_orphan()
    fn is_leaf(u: &Self::Node) -> bool;
    fn is_orphan(u: &Self::Node) -> bool;
    fn is_connected(u: &Self::Node, k: usize) -> bool;
    /// undirected: find_adjacent()
    fn find_out(u: &Self::Node, k: usize) -> Option<Self::Node>;
    /// undirected: find_adjacent()
    fn find_in(u: &Self::Node, k: usize) -> Option<Self::Node>;
    fn sizeof(u: &Self::Node) -> usize;
    /// `Edge(a.0, a.1, a.2) == Edge(b.0, b.1, b.2)`
    fn edge_eq(a: &ET<Self::Node>, b: &ET<Self::Node>) -> bool;
    /// reverse() of an edge, as keys and value
    fn edge_reverse(a: &ET<Self::Node>) -> (usize, usize, u64);
    /// `cmp`, `partial_cmp`, `<`, `<=` of two edges, and the order `sort()` puts a list of edges in
    fn edge_cmp(a: &ET<Self::Node>, b: &ET<Self::Node>) -> String;
    fn edge_sort(v: &[ET<Self::Node>]) -> Vec<(usize, usize, u64)>;

    /// `iter_out()` (undirected: `iter()`); the loop body is `f`, `false` breaks
    fn for_out(u: &Self::Node, f: Step<Self::Node>);
    /// `iter_in()` (undirected: `iter()`)
    fn for_in(u: &Self::Node, f: Step<Self::Node>);
    /// `for e in &node`
    fn for_into(u: &Self::Node, f: Step<Self::Node>);
    /// the same three walks driven through the `Iterator` interface the way adaptor chains
    /// do: `style` 1 asks `size_hint()` around every `next()`, `style` 2 is
    /// `iter.map(body).collect::<Vec<_>>()`; `dir` 0 = out, 1 = in, 2 = `(&node).into_iter()`
    fn for_adapted(u: &Self::Node, dir: u8, style: u8, f: Step<Self::Node>);

    fn search(root: &Self::Node, spec: &SearchSpec, cb: Cb<Self::Node>) -> SearchOut<Self::Node>;
    /// everything the `Path` API says about the result of a closure-free path or cycle search
    /// (len, iter_nodes, iter_edges, first/last edge and node, indexing, to_vec_*), as text
    fn path_info(root: &Self::Node, spec: &SearchSpec) -> Option<String>;
    /// `Graph::default()`, and `Graph::with_capacity(c)` where the flavour has it
    /// graphs built with the flavour's construction macros (four signature forms; self-loop,
    /// repeated edge, forward reference, empty list), described as text
    fn macro_samples() -> Vec<String>;
    fn g_default() -> Self::Graph;
    fn g_with_capacity(c: usize) -> Option<Self::Graph>;

    fn g_new() -> Self::Graph;
    fn g_insert(g: &mut Self::Graph, n: Self::Node) -> bool;
    fn g_remove(g: &mut Self::Graph, k: usize) -> Option<Self::Node>;
    fn g_get(g: &Self::Graph, k: usize) -> Option<Self::Node>;
    /// `g[k]` (panics for a non-member, like the library)
    fn g_index(g: &Self::Graph, k: usize) -> Self::Node;
    /// `g[&k]` where the flavour implements `Index<&K>`
    fn g_index_ref(g: &Self::Graph, k: usize) -> Option<Self::Node>;
    fn g_contains(g: &Self::Graph, k: usize) -> bool;
    fn g_len(g: &Self::Graph) -> usize;
    fn g_is_empty(g: &Self::Graph) -> bool;
    fn g_to_vec(g: &Self::Graph) -> Vec<Self::Node>;
    fn g_iter(g: &Self::Graph) -> Vec<(usize, Self::Node)>;
    fn g_roots(g: &Self::Graph) -> Option<Vec<Self::Node>>;
    fn g_leaves(g: &Self::Graph) -> Option<Vec<Self::Node>>;
    fn g_orphans(g: &Self::Graph) -> Vec<Self::Node>;
    fn g_scc(g: &Self::Graph) -> Option<Vec<Vec<Self::Node>>>;
    fn g_to_dot(g: &Self::Graph) -> String;
    fn g_to_dot_attr(g: &Self::Graph, spec: DotSpec) -> Option<String>;
    type AltGraph;
    fn alt_dot_attr(g: &Self::AltGraph) -> Option<String>;
    /// `to_dot_with_attr` whose node and edge callbacks are the harness's own (they return no
    /// attributes); None where the flavour has no such export
    fn g_to_dot_cb(g: &Self::Graph, ncb: &dyn Fn(&Self::Node), ecb: &dyn Fn(&Self::Node, &Self::Node, &EVal)) -> Option<String>;
    fn g_ser(g: &Self::Graph, wire: Wire) -> Result<Vec<u8>, String>;
    fn g_ser_writer(g: &Self::Graph, wire: Wire, w: &mut dyn Write) -> Result<(), String>;
    fn g_de(bytes: &[u8], wire: Wire) -> Result<Self::Graph, String>;
    fn g_de_reader(r: &mut dyn Read, wire: Wire) -> Result<Self::Graph, String>;
    /// `Deserialize::deserialize_in_place` into an existing container (what serde's in-place mode
    /// and reload loops call): afterwards the container holds the document's graph, whatever it
    /// held before
    fn g_de_in_place(g: &mut Self::Graph, bytes: &[u8], wire: Wire) -> Result<(), String>;
    fn alt_round_trip(n: usize, edges: &[(usize, usize)], wire: Wire, key_style: u8) -> Result<(String, String), String>;
    /// `to_dot()` (and `to_dot_with_attr` without attributes, where the flavour has it) of a graph
    /// whose keys are `PortKey`s: distinct keys that may print alike
    fn alt_dot(n: usize, edges: &[(usize, usize)]) -> (String, Option<String>);
    /// deserialise a document whose keys are strings and whose node and edge values are `()`:
    /// per member its key and the keys its edges lead to
    fn alt_de(bytes: &[u8], wire: Wire) -> Result<Vec<(String, Vec<String>)>, String>;
}

/// `String` keys of several styles (the simulator's own keys are small integers): plain, long,
/// long with multi-byte characters (no 16-byte prefix ends on a character boundary), and
/// awkward ones (empty, blank, quotes, backslashes, digits, other scripts)
pub fn alt_key(style: u8, k: usize) -> String {
    match style % 4 {
        0 => format!("k{k}"),
        1 => format!("node-with-a-rather-long-name-{k:04}"),
        2 => format!("x{}{k}", "é".repeat(10)),
        _ => {
            const W: [&str; 10] = ["", " ", "\"q\"", "a\\b", "0", "-1", "ключ", "🙂🙂🙂🙂🙂", "{}", "a b\tc"];
            if k < W.len() {
                W[k].to_string()
            } else {
                format!("{}{k}", W[k % W.len()])
            }
        }
    }
}

/// A key type whose `Display` is not injective: `PortKey { unit, lane }` prints as `u<unit>`.
/// Two members with such keys are different members; what the key prints is the caller's business.
#[derive(Clone, Debug, PartialEq, Eq, Hash, PartialOrd, Ord)]
pub struct PortKey {
    pub unit: usize,
    pub lane: usize,
}
impl std::fmt::Display for PortKey {
    fn fmt(&self, f: &mut std::fmt::Formatter<'_>) -> std::fmt::Result {
        write!(f, "u{}", self.unit)
    }
}
pub fn port_key(k: usize) -> PortKey {
    PortKey { unit: k / 2, lane: k % 2 }
}

/// A key with two fields (serialised as a map / two-element structure, printed as `r<row>c<col>`).
#[derive(Clone, Debug, PartialEq, Eq, Hash, PartialOrd, Ord, serde::Serialize, serde::Deserialize)]
pub struct GridKey {
    pub row: i32,
    pub col: u8,
}
impl std::fmt::Display for GridKey {
    fn fmt(&self, f: &mut std::fmt::Formatter<'_>) -> std::fmt::Result {
        write!(f, "r{}c{}", self.row, self.col)
    }
}

/// One round trip of the graph `(n, edges)` instantiated with other key, node-value and
/// edge-value types: returns the description (keys, node values, per node the edges with their
/// values) before and after.
macro_rules! alt_rt {
    ($m:ident, $K:ty, $N:ty, $E:ty, $key:expr, $nv:expr, $ev:expr, $n:ident, $edges:ident, $wire:ident, $directed:expr) => {{
        type G = gdsl::$m::Graph<$K, $N, $E>;
        let key = $key;
        let nv = $nv;
        let ev = $ev;
        let nodes: Vec<gdsl::$m::Node<$K, $N, $E>> = (0..$n).map(|k| gdsl::$m::Node::new(key(k), nv(k))).collect();
        for (i, (u, v)) in $edges.iter().enumerate() {
            nodes[*u].connect(&nodes[*v], ev(i));
        }
        let mut g: G = gdsl::$m::Graph::new();
        for x in &nodes {
            g.insert(x.clone());
        }
        let describe = |g: &G| -> String {
            let mut d: Vec<($K, String, Vec<($K, String)>)> = g
                .iter()
                .map(|(k, node)| {
                    let mut out: Vec<($K, String)> = Vec::new();
                    for gdsl::$m::Edge(_, b, e) in node {
                        out.push((b.key().clone(), format!("{e:?}")));
                    }
                    if !$directed {
                        // undirected: the multiset of incident edges is what round-trips
                        out.sort();
                    }
                    (k.clone(), format!("{:?}", node.value()), out)
                })
                .collect();
            d.sort();
            format!("{d:?}")
        };
        let before = describe(&g);
        let bytes = match $wire {
            Wire::Cbor => serde_cbor::to_vec(&g).map_err(|e| e.to_string())?,
            Wire::JsonValue => serde_json::to_vec(&serde_json::to_value(&g).map_err(|e| e.to_string())?).map_err(|e| e.to_string())?,
            _ => serde_json::to_vec(&g).map_err(|e| e.to_string())?,
        };
        let g2: G = match $wire {
            Wire::Cbor => serde_cbor::from_slice(&bytes).map_err(|e| e.to_string())?,
            Wire::JsonValue => {
                let v: serde_json::Value = serde_json::from_slice(&bytes).map_err(|e| e.to_string())?;
                serde_json::from_value(v).map_err(|e| e.to_string())?
            }
            _ => serde_json::from_slice(&bytes).map_err(|e| e.to_string())?,
        };
        Ok((before, describe(&g2)))
    }};
}

pub trait SyncFlavour: Flavour
where
    Self::Node: Send + Sync,
    Self::Graph: Send + Sync,
{
}

pub fn dot_g(spec: DotSpec) -> Option<Vec<(String, String)>> {
    if spec.g {
        Some(vec![("rankdir".to_string(), "LR".to_string())])
    } else {
        None
    }
}
/// attribute values a DOT user writes: label escapes (`\n`, `\l` as two characters), paths,
/// colour codes, blanks, a tab, non-ASCII text - the export has to pass them on as they are
pub const DOT_VALUES: [&str; 8] = ["plain", "two\\nlines", "left\\l", "C:\\tmp\\x", "#ff00aa", "a b", "tab\there", "\u{e9}t\u{e9}"];

pub fn dot_n(spec: DotSpec, key: usize, prio: u32) -> Option<Vec<(String, String)>> {
    if spec.nmask & (1 << (key % 16)) != 0 {
        Some(vec![
            ("label".to_string(), format!("k{key}")),
            ("prio".to_string(), format!("{prio}")),
            ("note".to_string(), DOT_VALUES[(key + prio as usize) % DOT_VALUES.len()].to_string()),
        ])
    } else {
        None
    }
}
pub fn dot_e(spec: DotSpec, u: usize, v: usize, e: u64) -> Option<Vec<(String, String)>> {
    if spec.emask & (1 << (e % 16)) != 0 {
        Some(vec![
            ("label".to_string(), format!("{u}-{v}-e{e}")),
            ("note".to_string(), DOT_VALUES[(e as usize) % DOT_VALUES.len()].to_string()),
        ])
    } else {
        None
    }
}

macro_rules! common_node_items {
    ($m:ident) => {
        fn node_new(k: usize, v: NVal) -> Self::Node {
            gdsl::$m::Node::new(kin(k), v)
        }
        fn key(n: &Self::Node) -> usize {
            kout(*n.key())
        }
        fn prio(n: &Self::Node) -> u32 {
            n.value().prio
        }
        fn vid(n: &Self::Node) -> u64 {
            n.value().id
        }
        fn eff(n: &Self::Node) -> i64 {
            n.value().eff()
        }
        fn set_eff(n: &Self::Node, v: i64) {
            n.value().set_eff(v)
        }
        fn deref_prio(n: &Self::Node) -> u32 {
            use std::ops::Deref;
            n.deref().prio
        }
        fn node_eq(a: &Self::Node, b: &Self::Node) -> bool {
            a == b
        }
        fn node_cmp(a: &Self::Node, b: &Self::Node) -> std::cmp::Ordering {
            let c = a.cmp(b);
            assert_eq!(Some(c), a.partial_cmp(b));
            c
        }
        fn connect(u: &Self::Node, v: &Self::Node, e: EVal) {
            u.connect(v, e)
        }
        fn try_connect(u: &Self::Node, v: &Self::Node, e: EVal) -> Result<(), GErr> {
            u.try_connect(v, e).map_err(gerr)
        }
        fn disconnect(u: &Self::Node, k: usize) -> Result<EVal, GErr> {
            u.disconnect(&kin(k)).map_err(gerr)
        }
        fn isolate(u: &Self::Node) {
            u.isolate()
        }
        fn is_orphan(u: &Self::Node) -> bool {
            u.is_orphan()
        }
        fn is_connected(u: &Self::Node, k: usize) -> bool {
            u.is_connected(&kin(k))
        }
        fn sizeof(u: &Self::Node) -> usize {
            u.sizeof()
        }
        fn edge_eq(a: &ET<Self::Node>, b: &ET<Self::Node>) -> bool {
            let ea = gdsl::$m::Edge(a.0.clone(), a.1.clone(), a.2.clone());
            let eb = gdsl::$m::Edge(b.0.clone(), b.1.clone(), b.2.clone());
            ea == eb
        }
        fn edge_cmp(a: &ET<Self::Node>, b: &ET<Self::Node>) -> String {
            #[allow(unused_imports)]
            use crate::flavour::{ViaNoOrd, ViaOrd};
            let es = [
                gdsl::$m::Edge(a.0.clone(), a.1.clone(), a.2.clone()),
                gdsl::$m::Edge(b.0.clone(), b.1.clone(), b.2.clone()),
            ];
            (&&crate::flavour::OrdProbe(&es[..])).order_report().0
        }
        fn edge_sort(v: &[ET<Self::Node>]) -> Vec<(usize, usize, u64)> {
            #[allow(unused_imports)]
            use crate::flavour::{ViaNoOrd, ViaOrd};
            let es: Vec<gdsl::$m::Edge<SimKey, NVal, EVal>> =
                v.iter().map(|a| gdsl::$m::Edge(a.0.clone(), a.1.clone(), a.2.clone())).collect();
            match (&&crate::flavour::OrdProbe(&es[..])).order_report().1 {
                Some(idx) => idx.iter().map(|i| (kout(*es[*i].0.key()), kout(*es[*i].1.key()), (es[*i].2).0)).collect(),
                None => Vec::new(),
            }
        }
        fn edge_reverse(a: &ET<Self::Node>) -> (usize, usize, u64) {
            let e = gdsl::$m::Edge(a.0.clone(), a.1.clone(), a.2.clone());
            assert!(e.source().key() == a.0.key() && e.target().key() == a.1.key() && e.value().0 == (a.2).0);
            let r = e.reverse();
            (kout(*r.0.key()), kout(*r.1.key()), (r.2).0)
        }
    };
}

macro_rules! common_graph_items {
    ($m:ident) => {
        fn g_new() -> Self::Graph {
            gdsl::$m::Graph::new()
        }
        fn g_insert(g: &mut Self::Graph, n: Self::Node) -> bool {
            g.insert(n)
        }
        fn g_remove(g: &mut Self::Graph, k: usize) -> Option<Self::Node> {
            g.remove(&kin(k))
        }
        fn g_get(g: &Self::Graph, k: usize) -> Option<Self::Node> {
            g.get(&kin(k))
        }
        fn g_index(g: &Self::Graph, k: usize) -> Self::Node {
            g[kin(k)].clone()
        }
        fn g_contains(g: &Self::Graph, k: usize) -> bool {
            g.contains(&kin(k))
        }
        fn g_len(g: &Self::Graph) -> usize {
            g.len()
        }
        fn g_is_empty(g: &Self::Graph) -> bool {
            g.is_empty()
        }
        fn g_to_vec(g: &Self::Graph) -> Vec<Self::Node> {
            g.to_vec()
        }
        fn g_iter(g: &Self::Graph) -> Vec<(usize, Self::Node)> {
            g.iter().map(|(k, n)| (kout(*k), n.clone())).collect()
        }
        fn g_orphans(g: &Self::Graph) -> Vec<Self::Node> {
            g.orphans()
        }
        fn g_to_dot(g: &Self::Graph) -> String {
            g.to_dot()
        }
        fn g_ser(g: &Self::Graph, wire: Wire) -> Result<Vec<u8>, String> {
            match wire {
                Wire::Json => serde_json::to_vec(g).map_err(|e| e.to_string()),
                Wire::Cbor => serde_cbor::to_vec(g).map_err(|e| e.to_string()),
                Wire::JsonValue => {
                    let v = serde_json::to_value(g).map_err(|e| e.to_string())?;
                    serde_json::to_vec(&v).map_err(|e| e.to_string())
                }
                Wire::JsonStr => serde_json::to_string(g).map(|s| s.into_bytes()).map_err(|e| e.to_string()),
            }
        }
        fn g_ser_writer(g: &Self::Graph, wire: Wire, w: &mut dyn Write) -> Result<(), String> {
            match wire {
                Wire::Cbor => serde_cbor::to_writer(w, g).map_err(|e| e.to_string()),
                _ => serde_json::to_writer(w, g).map_err(|e| e.to_string()),
            }
        }
        fn g_de(bytes: &[u8], wire: Wire) -> Result<Self::Graph, String> {
            match wire {
                Wire::Json => serde_json::from_slice(bytes).map_err(|e| e.to_string()),
                Wire::Cbor => serde_cbor::from_slice(bytes).map_err(|e| e.to_string()),
                Wire::JsonValue => {
                    let v: serde_json::Value = serde_json::from_slice(bytes).map_err(|e| e.to_string())?;
                    serde_json::from_value(v).map_err(|e| e.to_string())
                }
                Wire::JsonStr => {
                    let s = std::str::from_utf8(bytes).map_err(|e| e.to_string())?;
                    serde_json::from_str(s).map_err(|e| e.to_string())
                }
            }
        }
        fn g_de_in_place(g: &mut Self::Graph, bytes: &[u8], wire: Wire) -> Result<(), String> {
            use serde::Deserialize;
            if wire.is_cbor() {
                let mut d = serde_cbor::Deserializer::from_slice(bytes);
                Deserialize::deserialize_in_place(&mut d, g).map_err(|e| e.to_string())
            } else {
                let mut d = serde_json::Deserializer::from_slice(bytes);
                Deserialize::deserialize_in_place(&mut d, g).map_err(|e| e.to_string())
            }
        }
        fn g_de_reader(r: &mut dyn Read, wire: Wire) -> Result<Self::Graph, String> {
            match wire {
                Wire::Cbor => serde_cbor::from_reader(r).map_err(|e| e.to_string()),
                _ => serde_json::from_reader(r).map_err(|e| e.to_string()),
            }
        }
        fn alt_dot(n: usize, edges: &[(usize, usize)]) -> (String, Option<String>) {
            type G = gdsl::$m::Graph<PortKey, u8, u8>;
            let nodes: Vec<gdsl::$m::Node<PortKey, u8, u8>> = (0..n).map(|k| gdsl::$m::Node::new(port_key(k), 0u8)).collect();
            for (u, v) in edges {
                nodes[*u].connect(&nodes[*v], 0u8);
            }
            let mut g: G = gdsl::$m::Graph::new();
            for x in &nodes {
                g.insert(x.clone());
            }
            (g.to_dot(), Self::alt_dot_attr(&g))
        }
        /// round trip of a graph with `String` keys, `()` node values and `()` edge values (so
        /// parallel edges are indistinguishable): description before and after
        fn alt_de(bytes: &[u8], wire: Wire) -> Result<Vec<(String, Vec<String>)>, String> {
            type G = gdsl::$m::Graph<String, (), ()>;
            let g: G = match wire {
                Wire::Cbor => serde_cbor::from_slice(bytes).map_err(|e| e.to_string())?,
                Wire::JsonValue => {
                    let v: serde_json::Value = serde_json::from_slice(bytes).map_err(|e| e.to_string())?;
                    serde_json::from_value(v).map_err(|e| e.to_string())?
                }
                Wire::JsonStr => {
                    let s = std::str::from_utf8(bytes).map_err(|e| e.to_string())?;
                    serde_json::from_str(s).map_err(|e| e.to_string())?
                }
                Wire::Json => serde_json::from_slice(bytes).map_err(|e| e.to_string())?,
            };
            let mut d: Vec<(String, Vec<String>)> = g
                .iter()
                .map(|(k, node)| {
                    let mut out: Vec<String> = Vec::new();
                    for gdsl::$m::Edge(_, b, _) in node {
                        out.push(b.key().clone());
                    }
                    (k.clone(), out)
                })
                .collect();
            d.sort();
            Ok(d)
        }
        fn alt_round_trip(n: usize, edges: &[(usize, usize)], wire: Wire, key_style: u8) -> Result<(String, String), String> {
            // three instantiations of the generic code besides the simulators' own payloads
            match (key_style / 4) % 3 {
                0 => alt_rt!($m, String, (), (), |k: usize| alt_key(key_style, k), |_k: usize| (), |_i: usize| (), n, edges, wire, Self::DIRECTED),
                // optional node values (some absent), zero-sized edge values that are not `()`
                1 => alt_rt!(
                    $m,
                    String,
                    Option<String>,
                    [u8; 0],
                    |k: usize| alt_key(key_style, k),
                    |k: usize| if k % 3 == 0 { None } else { Some(alt_key(key_style.wrapping_add(1), k)) },
                    |_i: usize| [0u8; 0],
                    n,
                    edges,
                    wire,
                    Self::DIRECTED
                ),
                // a two-field key, nested node values of varying length, edge values at the top of u64
                _ => alt_rt!(
                    $m,
                    GridKey,
                    Vec<(i8, String)>,
                    u64,
                    |k: usize| GridKey { row: k as i32 / 3 - 2, col: (k % 3) as u8 },
                    |k: usize| (0..k % 4).map(|j| (j as i8 - 1, alt_key(key_style, j))).collect::<Vec<_>>(),
                    |i: usize| u64::MAX - (i as u64 % 7),
                    n,
                    edges,
                    wire,
                    Self::DIRECTED
                ),
            }
        }
    };
}

macro_rules! dot_attr_impl {
    ($m:ident) => {
        fn g_to_dot_attr(g: &Self::Graph, spec: DotSpec) -> Option<String> {
            Some(g.to_dot_with_attr(
                &|_| dot_g(spec),
                &|n| dot_n(spec, kout(*n.key()), n.value().prio),
                &|u, v, e| dot_e(spec, kout(*u.key()), kout(*v.key()), e.0),
            ))
        }
        fn alt_dot_attr(g: &Self::AltGraph) -> Option<String> {
            Some(g.to_dot_with_attr(&|_| None, &|_| None, &|_, _, _| None))
        }
        fn g_to_dot_cb(g: &Self::Graph, ncb: &dyn Fn(&Self::Node), ecb: &dyn Fn(&Self::Node, &Self::Node, &EVal)) -> Option<String> {
            Some(g.to_dot_with_attr(
                &|_| None,
                &|n| {
                    ncb(n);
                    None
                },
                &|u, v, e| {
                    ecb(u, v, e);
                    None
                },
            ))
        }
    };
}

macro_rules! describe_macro_graph {
    ($g:expr, $m:ident) => {{
        let g = $g;
        let mut d: Vec<(String, String, Vec<(String, String)>)> = g
            .iter()
            .map(|(k, node)| {
                let mut out = Vec::new();
                for gdsl::$m::Edge(_, b, e) in node {
                    out.push((format!("{:?}", b.key()), format!("{:?}", e)));
                }
                (format!("{:?}", k), format!("{:?}", node.value()), out)
            })
            .collect();
        d.sort();
        format!("{d:?}")
    }};
}

macro_rules! macro_samples_impl {
    ($m:ident, $mac:ident) => {
        fn macro_samples() -> Vec<String> {
            let g0 = gdsl::$mac![];
            let g1 = gdsl::$mac![
                (&str)
                ("A") => ["B", "C", "B"]
                ("B") => ["B"]
                ("C") => ["D", "A"]
                ("D") => []
            ];
            let g2 = gdsl::$mac![
                (&str, i32)
                ("A", 1) => ["C", "B"]
                ("B", 2) => ["A", "A"]
                ("C", 3) => []
            ];
            let g3 = gdsl::$mac![
                (&str) => [i32]
                ("A") => [("B", 10), ("B", 11), ("A", 12)]
                ("B") => [("C", 13)]
                ("C") => []
            ];
            let g4 = gdsl::$mac![
                (usize, i32) => [u8]
                (1, 42) => [(2, 1), (3, 2), (10, 3)]
                (2, 42) => [(3, 4), (1, 5)]
                (3, 42) => [(3, 6)]
                (10, 7) => [(1, 8)]
            ];
            vec![
                format!("{} members", g0.len()),
                describe_macro_graph!(&g1, $m),
                describe_macro_graph!(&g2, $m),
                describe_macro_graph!(&g3, $m),
                describe_macro_graph!(&g4, $m),
            ]
        }
    };
}

macro_rules! describe_path {
    ($p:expr) => {{
        let p = $p;
        let edge = |a: usize, b: usize, e: u64| format!("({a},{b},{e})");
        let nodes: Vec<usize> = p.iter_nodes().map(|n| kout(*n.key())).collect();
        let edges: Vec<String> = p.iter_edges().map(|e| edge(kout(*e.0.key()), kout(*e.1.key()), (e.2).0)).collect();
        let tv_nodes: Vec<usize> = p.to_vec_nodes().iter().map(|n| kout(*n.key())).collect();
        let tv_edges: Vec<String> = p.to_vec_edges().iter().map(|e| edge(kout(*e.0.key()), kout(*e.1.key()), (e.2).0)).collect();
        let fe = p.first_edge().map(|e| edge(kout(*e.0.key()), kout(*e.1.key()), (e.2).0));
        let le = p.last_edge().map(|e| edge(kout(*e.0.key()), kout(*e.1.key()), (e.2).0));
        let fnode = p.first_node().map(|n| kout(*n.key()));
        let lnode = p.last_node().map(|n| kout(*n.key()));
        let idx0 = if p.len() > 1 { Some(edge(kout(*p[0].0.key()), kout(*p[0].1.key()), (p[0].2).0)) } else { None };
        format!(
            "len={} nodes={nodes:?} edges={edges:?} to_vec_nodes={tv_nodes:?} to_vec_edges={tv_edges:?} first_edge={fe:?} last_edge={le:?} first_node={fnode:?} last_node={lnode:?} [0]={idx0:?}",
            p.len()
        )
    }};
}

macro_rules! edges_of {
    ($v:expr) => {
        $v.into_iter().map(|e| (e.0, e.1, e.2)).collect::<Vec<_>>()
    };
}

macro_rules! elsewhere_impl {
    ($m:ident, true) => {
        fn node_new_elsewhere(k: usize, v: NVal) -> Self::Node {
            let key = kin(k);
            std::thread::spawn(move || gdsl::$m::Node::new(key, v)).join().expect("creating a node on another thread")
        }
    };
    ($m:ident, false) => {};
}

macro_rules! with_capacity_impl {
    ($m:ident, yes) => {
        fn g_with_capacity(c: usize) -> Option<Self::Graph> {
            Some(gdsl::$m::Graph::with_capacity(c))
        }
    };
    ($m:ident, no) => {
        fn g_with_capacity(_c: usize) -> Option<Self::Graph> {
            None
        }
    };
}

macro_rules! directed_flavour {
    ($ty:ident, $m:ident, $name:expr, $sync:tt, $cap:tt) => {
        pub struct $ty;
        mod $m {
            use super::*;
            pub type N = gdsl::$m::Node<SimKey, NVal, EVal>;
            pub type E = gdsl::$m::Edge<SimKey, NVal, EVal>;

            macro_rules! three {
                ($b:expr, $spec:ident, $tk:ident, $meth:ident) => {{
                    let mut b = $b;
                    if let Some(t) = &$tk {
                        b = b.target(t);
                    }
                    if $spec.transpose {
                        b = b.transpose();
                    }
                    match $meth {
                        Meth::None => {}
                        Meth::ForEach(f) => b = b.for_each(f),
                        Meth::Filter(f) => b = b.filter(f),
                    }
                    match $spec.mode {
                        SMode::Find => SearchOut::Node(b.search()),
                        SMode::Path => {
                            SearchOut::Path(b.search_path().map(|p| edges_of!(p.to_vec_edges())))
                        }
                        SMode::Cycle => {
                            SearchOut::Path(b.search_cycle().map(|p| edges_of!(p.to_vec_edges())))
                        }
                        _ => unreachable!(),
                    }
                }};
            }

            pub fn go<'a>(root: &'a N, spec: &SearchSpec, meth: Meth<'a, E>) -> SearchOut<N> {
                let tk: Option<SimKey> = spec.target.map(kin);
                match spec.kind {
                    SKind::Bfs => three!(root.bfs(), spec, tk, meth),
                    SKind::Dfs => three!(root.dfs(), spec, tk, meth),
                    SKind::PfsMin => three!(root.pfs().min(), spec, tk, meth),
                    SKind::PfsMax => three!(root.pfs().max(), spec, tk, meth),
                    SKind::Pre | SKind::Post => {
                        let mut b = if spec.kind == SKind::Pre {
                            root.preorder()
                        } else {
                            root.postorder()
                        };
                        if spec.transpose {
                            b = b.transpose();
                        }
                        match meth {
                            Meth::None => {}
                            Meth::ForEach(f) => b = b.for_each(f),
                            Meth::Filter(f) => b = b.filter(f),
                        }
                        match spec.mode {
                            SMode::Nodes => SearchOut::Nodes(b.search_nodes()),
                            SMode::Edges => SearchOut::Edges(edges_of!(b.search_edges())),
                            _ => unreachable!(),
                        }
                    }
                }
            }
        }

        impl Flavour for $ty {
            const NAME: &'static str = $name;
            const DIRECTED: bool = true;
            const SYNC: bool = $sync;
            elsewhere_impl!($m, $sync);
            type Node = $m::N;
            type Graph = gdsl::$m::Graph<SimKey, NVal, EVal>;
            type AltGraph = gdsl::$m::Graph<PortKey, u8, u8>;

            common_node_items!($m);

            fn out_degree(u: &Self::Node) -> usize {
                u.out_degree()
            }
            fn in_degree(u: &Self::Node) -> usize {
                u.in_degree()
            }
            fn is_root(u: &Self::Node) -> bool {
                u.is_root()
            }
            fn is_leaf(u: &Self::Node) -> bool {
                u.is_leaf()
            }
            fn find_out(u: &Self::Node, k: usize) -> Option<Self::Node> {
                u.find_outbound(&kin(k))
            }
            fn find_in(u: &Self::Node, k: usize) -> Option<Self::Node> {
                u.find_inbound(&kin(k))
            }
            fn for_out(u: &Self::Node, f: Step<Self::Node>) {
                for gdsl::$m::Edge(a, b, e) in u.iter_out() {
                    if !f(a, b, e) {
                        break;
                    }
                }
            }
            fn for_in(u: &Self::Node, f: Step<Self::Node>) {
                for gdsl::$m::Edge(a, b, e) in u.iter_in() {
                    if !f(a, b, e) {
                        break;
                    }
                }
            }
            fn for_into(u: &Self::Node, f: Step<Self::Node>) {
                for gdsl::$m::Edge(a, b, e) in u {
                    if !f(a, b, e) {
                        break;
                    }
                }
            }
            fn for_adapted(u: &Self::Node, dir: u8, style: u8, f: Step<Self::Node>) {
                macro_rules! drive {
                    ($it:expr) => {{
                        let mut it = $it;
                        if style == 1 {
                            loop {
                                let _ = it.size_hint();
                                match it.next() {
                                    Some(gdsl::$m::Edge(a, b, e)) => {
                                        if !f(a, b, e) {
                                            break;
                                        }
                                    }
                                    None => break,
                                }
                            }
                            let _ = it.size_hint();
                        } else {
                            // the body, as adaptor chains call it; `false` cuts the walk by unwinding
                            let mut body = |gdsl::$m::Edge(a, b, e): gdsl::$m::Edge<SimKey, NVal, EVal>| {
                                if !f(a, b, e) {
                                    std::panic::resume_unwind(Box::new(crate::locks::SimAbort("cut".into())));
                                }
                                true
                            };
                            match style {
                                2 => {
                                    let _v: Vec<bool> = it.map(&mut body).collect();
                                }
                                3 => it.for_each(|e| {
                                    body(e);
                                }),
                                4 => {
                                    let _ = it.try_for_each(|e| if body(e) { Ok(()) } else { Err(()) });
                                }
                                5 => it.step_by(2).for_each(|e| {
                                    body(e);
                                }),
                                6 => it.skip(1).for_each(|e| {
                                    body(e);
                                }),
                                7 => {
                                    // fold / count / last on what is left after the first element
                                    if let Some(e) = it.next() {
                                        body(e);
                                    }
                                    let _ = it.fold(0usize, |n, e| {
                                        body(e);
                                        n + 1
                                    });
                                }
                                _ => {
                                    if let Some(e) = it.nth(0) {
                                        body(e);
                                    }
                                    if let Some(e) = it.last() {
                                        body(e);
                                    }
                                }
                            }
                        }
                    }};
                }
                match dir {
                    0 => drive!(u.iter_out()),
                    1 => drive!(u.iter_in()),
                    _ => drive!(u.into_iter()),
                }
            }
            fn search(root: &Self::Node, spec: &SearchSpec, cb: Cb<Self::Node>) -> SearchOut<Self::Node> {
                match spec.closure {
                    Closure::None => $m::go(root, spec, Meth::None),
                    Closure::ForEach => {
                        let mut f = |e: &$m::E| {
                            cb(&e.0, &e.1, &e.2);
                        };
                        $m::go(root, spec, Meth::ForEach(&mut f))
                    }
                    Closure::Filter => {
                        let mut f = |e: &$m::E| cb(&e.0, &e.1, &e.2);
                        $m::go(root, spec, Meth::Filter(&mut f))
                    }
                }
            }

            fn path_info(root: &Self::Node, spec: &SearchSpec) -> Option<String> {
                let tk: Option<SimKey> = spec.target.map(kin);
                macro_rules! pi {
                    ($b:expr) => {{
                        let mut b = $b;
                        if let Some(t) = &tk {
                            b = b.target(t);
                        }
                        if spec.transpose {
                            b = b.transpose();
                        }
                        if spec.mode == SMode::Cycle {
                            b.search_cycle().map(|p| describe_path!(p))
                        } else {
                            // the same search object used a second and a third time
                            let first = b.search_path().map(|p| describe_path!(p));
                            let second = b.search_path().map(|p| describe_path!(p));
                            let third = b.search().map(|n| kout(*n.key()));
                            if first.is_none() && second.is_none() && third.is_none() {
                                None
                            } else {
                                Some(format!("{} | used again: {} | then search(): {third:?}", first.unwrap_or_default(), second.unwrap_or_default()))
                            }
                        }
                    }};
                }
                match spec.kind {
                    SKind::Bfs => pi!(root.bfs()),
                    SKind::Dfs => pi!(root.dfs()),
                    SKind::PfsMin => pi!(root.pfs().min()),
                    SKind::PfsMax => pi!(root.pfs().max()),
                    _ => None,
                }
            }
            macro_samples_impl!($m, $m);
            fn g_default() -> Self::Graph {
                Default::default()
            }
            with_capacity_impl!($m, $cap);
            common_graph_items!($m);
            dot_attr_impl!($m);

            fn g_index_ref(g: &Self::Graph, k: usize) -> Option<Self::Node> {
                Some(g[&kin(k)].clone())
            }
            fn g_roots(g: &Self::Graph) -> Option<Vec<Self::Node>> {
                Some(g.roots())
            }
            fn g_leaves(g: &Self::Graph) -> Option<Vec<Self::Node>> {
                Some(g.leaves())
            }
            fn g_scc(g: &Self::Graph) -> Option<Vec<Vec<Self::Node>>> {
                Some(g.scc())
            }
        }
    };
}

macro_rules! undirected_flavour {
    ($ty:ident, $m:ident, $name:expr, $sync:tt, $dotattr:tt) => {
        pub struct $ty;
        mod $m {
            use super::*;
            pub type N = gdsl::$m::Node<SimKey, NVal, EVal>;
            pub type E = gdsl::$m::Edge<SimKey, NVal, EVal>;

            macro_rules! three {
                ($b:expr, $spec:ident, $tk:ident, $meth:ident) => {{
                    let mut b = $b;
                    if let Some(t) = &$tk {
                        b = b.target(t);
                    }
                    match $meth {
                        Meth::None => {}
                        Meth::ForEach(f) => b = b.for_each(f),
                        Meth::Filter(f) => b = b.filter(f),
                    }
                    match $spec.mode {
                        SMode::Find => SearchOut::Node(b.search()),
                        SMode::Path => {
                            SearchOut::Path(b.search_path().map(|p| edges_of!(p.to_vec_edges())))
                        }
                        SMode::Cycle => {
                            SearchOut::Path(b.search_cycle().map(|p| edges_of!(p.to_vec_edges())))
                        }
                        _ => unreachable!(),
                    }
                }};
            }

            pub fn go<'a>(
                root: &'a N,
                spec: &SearchSpec,
                tk: &'a Option<SimKey>,
                meth: Meth<'a, E>,
            ) -> SearchOut<N> {
                match spec.kind {
                    SKind::Bfs => three!(root.bfs(), spec, tk, meth),
                    SKind::Dfs => three!(root.dfs(), spec, tk, meth),
                    SKind::PfsMin => three!(root.pfs().min(), spec, tk, meth),
                    SKind::PfsMax => three!(root.pfs().max(), spec, tk, meth),
                    SKind::Pre | SKind::Post => {
                        let mut b = if spec.kind == SKind::Pre {
                            root.order().pre()
                        } else {
                            root.order().post()
                        };
                        match meth {
                            Meth::None => {}
                            Meth::ForEach(f) => b = b.for_each(f),
                            Meth::Filter(f) => b = b.filter(f),
                        }
                        match spec.mode {
                            SMode::Nodes => SearchOut::Nodes(b.search_nodes()),
                            SMode::Edges => SearchOut::Edges(edges_of!(b.search_edges())),
                            _ => unreachable!(),
                        }
                    }
                }
            }
        }

        impl Flavour for $ty {
            const NAME: &'static str = $name;
            const DIRECTED: bool = false;
            const SYNC: bool = $sync;
            elsewhere_impl!($m, $sync);
            type Node = $m::N;
            type Graph = gdsl::$m::Graph<SimKey, NVal, EVal>;
            type AltGraph = gdsl::$m::Graph<PortKey, u8, u8>;

            common_node_items!($m);

            fn out_degree(u: &Self::Node) -> usize {
                u.degree()
            }
            fn in_degree(u: &Self::Node) -> usize {
                u.degree()
            }
            fn is_root(u: &Self::Node) -> bool {
                u.is_orphan()
            }
            fn is_leaf(u: &Self::Node) -> bool {
                u.is_orphan()
            }
            fn find_out(u: &Self::Node, k: usize) -> Option<Self::Node> {
                u.find_adjacent(&kin(k))
            }
            fn find_in(u: &Self::Node, k: usize) -> Option<Self::Node> {
                u.find_adjacent(&kin(k))
            }
            fn for_out(u: &Self::Node, f: Step<Self::Node>) {
                for gdsl::$m::Edge(a, b, e) in u.iter() {
                    if !f(a, b, e) {
                        break;
                    }
                }
            }
            fn for_in(u: &Self::Node, f: Step<Self::Node>) {
                for gdsl::$m::Edge(a, b, e) in u.iter() {
                    if !f(a, b, e) {
                        break;
                    }
                }
            }
            fn for_into(u: &Self::Node, f: Step<Self::Node>) {
                for gdsl::$m::Edge(a, b, e) in u {
                    if !f(a, b, e) {
                        break;
                    }
                }
            }
            fn for_adapted(u: &Self::Node, dir: u8, style: u8, f: Step<Self::Node>) {
                macro_rules! drive {
                    ($it:expr) => {{
                        let mut it = $it;
                        if style == 1 {
                            loop {
                                let _ = it.size_hint();
                                match it.next() {
                                    Some(gdsl::$m::Edge(a, b, e)) => {
                                        if !f(a, b, e) {
                                            break;
                                        }
                                    }
                                    None => break,
                                }
                            }
                            let _ = it.size_hint();
                        } else {
                            // the body, as adaptor chains call it; `false` cuts the walk by unwinding
                            let mut body = |gdsl::$m::Edge(a, b, e): gdsl::$m::Edge<SimKey, NVal, EVal>| {
                                if !f(a, b, e) {
                                    std::panic::resume_unwind(Box::new(crate::locks::SimAbort("cut".into())));
                                }
                                true
                            };
                            match style {
                                2 => {
                                    let _v: Vec<bool> = it.map(&mut body).collect();
                                }
                                3 => it.for_each(|e| {
                                    body(e);
                                }),
                                4 => {
                                    let _ = it.try_for_each(|e| if body(e) { Ok(()) } else { Err(()) });
                                }
                                5 => it.step_by(2).for_each(|e| {
                                    body(e);
                                }),
                                6 => it.skip(1).for_each(|e| {
                                    body(e);
                                }),
                                7 => {
                                    // fold / count / last on what is left after the first element
                                    if let Some(e) = it.next() {
                                        body(e);
                                    }
                                    let _ = it.fold(0usize, |n, e| {
                                        body(e);
                                        n + 1
                                    });
                                }
                                _ => {
                                    if let Some(e) = it.nth(0) {
                                        body(e);
                                    }
                                    if let Some(e) = it.last() {
                                        body(e);
                                    }
                                }
                            }
                        }
                    }};
                }
                match dir {
                    0 | 1 => drive!(u.iter()),
                    _ => drive!(u.into_iter()),
                }
            }
            fn search(root: &Self::Node, spec: &SearchSpec, cb: Cb<Self::Node>) -> SearchOut<Self::Node> {
                let tk: Option<SimKey> = spec.target.map(kin);
                match spec.closure {
                    Closure::None => $m::go(root, spec, &tk, Meth::None),
                    Closure::ForEach => {
                        let mut f = |e: &$m::E| {
                            cb(&e.0, &e.1, &e.2);
                        };
                        $m::go(root, spec, &tk, Meth::ForEach(&mut f))
                    }
                    Closure::Filter => {
                        let mut f = |e: &$m::E| cb(&e.0, &e.1, &e.2);
                        $m::go(root, spec, &tk, Meth::Filter(&mut f))
                    }
                }
            }

            fn path_info(root: &Self::Node, spec: &SearchSpec) -> Option<String> {
                let tk: Option<SimKey> = spec.target.map(kin);
                macro_rules! pi {
                    ($b:expr) => {{
                        let mut b = $b;
                        if let Some(t) = &tk {
                            b = b.target(t);
                        }
                        if spec.mode == SMode::Cycle {
                            b.search_cycle().map(|p| describe_path!(p))
                        } else {
                            // the same search object used a second and a third time
                            let first = b.search_path().map(|p| describe_path!(p));
                            let second = b.search_path().map(|p| describe_path!(p));
                            let third = b.search().map(|n| kout(*n.key()));
                            if first.is_none() && second.is_none() && third.is_none() {
                                None
                            } else {
                                Some(format!("{} | used again: {} | then search(): {third:?}", first.unwrap_or_default(), second.unwrap_or_default()))
                            }
                        }
                    }};
                }
                match spec.kind {
                    SKind::Bfs => pi!(root.bfs()),
                    SKind::Dfs => pi!(root.dfs()),
                    SKind::PfsMin => pi!(root.pfs().min()),
                    SKind::PfsMax => pi!(root.pfs().max()),
                    _ => None,
                }
            }
            macro_samples_impl!($m, $m);
            fn g_default() -> Self::Graph {
                Default::default()
            }
            fn g_with_capacity(_c: usize) -> Option<Self::Graph> {
                None
            }
            common_graph_items!($m);
            undirected_dot_attr!($m, $dotattr);

            fn g_index_ref(_g: &Self::Graph, _k: usize) -> Option<Self::Node> {
                None
            }
            fn g_roots(_g: &Self::Graph) -> Option<Vec<Self::Node>> {
                None
            }
            fn g_leaves(_g: &Self::Graph) -> Option<Vec<Self::Node>> {
                None
            }
            fn g_scc(_g: &Self::Graph) -> Option<Vec<Vec<Self::Node>>> {
                None
            }
        }
    };
}

macro_rules! undirected_dot_attr {
    ($m:ident, yes) => {
        dot_attr_impl!($m);
    };
    ($m:ident, no) => {
        fn g_to_dot_attr(_g: &Self::Graph, _spec: DotSpec) -> Option<String> {
            None
        }
        fn g_to_dot_cb(_g: &Self::Graph, _ncb: &dyn Fn(&Self::Node), _ecb: &dyn Fn(&Self::Node, &Self::Node, &EVal)) -> Option<String> {
            None
        }
        fn alt_dot_attr(_g: &Self::AltGraph) -> Option<String> {
            None
        }
    };
}

directed_flavour!(Di, digraph, "digraph", false, yes);
directed_flavour!(SyncDi, sync_digraph, "sync_digraph", true, no);
undirected_flavour!(Un, ungraph, "ungraph", false, yes);
undirected_flavour!(SyncUn, sync_ungraph, "sync_ungraph", true, no);

impl SyncFlavour for SyncDi {}
impl SyncFlavour for SyncUn {}

pub const FLAVOURS: [&str; 4] = ["digraph", "ungraph", "sync_digraph", "sync_ungraph"];

/// Calls `$body` with `$F` bound to the flavour type named by `$name`.
#[macro_export]
macro_rules! with_flavour {
    ($name:expr, $F:ident, $body:expr) => {
        match $name {
            "digraph" => {
                type $F = $crate::flavour::Di;
                $body
            }
            "sync_digraph" => {
                type $F = $crate::flavour::SyncDi;
                $body
            }
            "ungraph" => {
                type $F = $crate::flavour::Un;
                $body
            }
            "sync_ungraph" => {
                type $F = $crate::flavour::SyncUn;
                $body
            }
            other => panic!("unknown flavour {other}"),
        }
    };
}
