//! The real gdsl objects of one run, the interpreter that executes `Op`s on
//! them through the public API, and the C01/C02 invariant monitors.

use std::collections::BTreeMap;
use crate::flavour::{Flavour, GErr, SearchOut};
use crate::locks::{caught, Caught};
use crate::model::{Closure, Er, Model, Obs, Op, Prov, SMode, SearchSpec, SKind};
use crate::payload::{EVal, NVal};

pub struct World<F: Flavour> {
    pub nodes: Vec<F::Node>,
    pub graph: Option<F::Graph>,
}

pub type Lists = (Vec<(usize, u64)>, Vec<(usize, u64)>);

/// safety net for harness-side loops over library iterators
pub const ITER_CAP: usize = 100_000;

impl<F: Flavour> World<F> {
    pub fn new(prios: &[u32], in_graph: bool) -> Self {
        let nodes: Vec<F::Node> = prios
            .iter()
            .enumerate()
            .map(|(k, p)| {
                // (one run in eight: every node is born on a thread of its own - whatever a
                // library keeps per thread starts from scratch for each of them)
                if crate::keys::nodes_born_elsewhere() {
                    F::node_new_elsewhere(k, NVal::new(*p, k as u64))
                } else {
                    F::node_new(k, NVal::new(*p, k as u64))
                }
            })
            .collect();
        let graph = if in_graph {
            let mut g = F::g_new();
            for n in &nodes {
                F::g_insert(&mut g, n.clone());
            }
            Some(g)
        } else {
            None
        };
        World { nodes, graph }
    }

    pub fn n(&self) -> usize {
        self.nodes.len()
    }

    /// Obtain a handle of node `u` the way `h` says; falls back to the
    /// original handle when that way is not available in the current state.
    /// did the requested provenance actually yield a handle (rather than the fallback)?
    pub fn provenance_available(&self, u: usize, h: Prov) -> bool {
        match h {
            Prov::Own | Prov::Clone => true,
            _ => {
                let got = self.handle_unchecked(u, h);
                // the fallback is a clone of the own handle: same node, but we cannot tell
                // identity of handles apart; ask whether the source of the handle exists
                F::key(&got) == u
                    && match h {
                        Prov::Get | Prov::Index => self.graph.as_ref().map(|g| F::g_contains(g, u)).unwrap_or(false),
                        Prov::EdgeSrc => F::out_degree(&self.nodes[u]) > 0,
                        Prov::EdgeDst => F::in_degree(&self.nodes[u]) > 0,
                        _ => true,
                    }
            }
        }
    }

    pub fn handle(&self, u: usize, h: Prov) -> F::Node {
        let got = self.handle_unchecked(u, h);
        // a traversal or iterator that hands back another node is C04-C10's business: the
        // operation under test must still be made on node `u`
        if F::key(&got) == u {
            got
        } else {
            self.nodes[u].clone()
        }
    }

    fn handle_unchecked(&self, u: usize, h: Prov) -> F::Node {
        let own = &self.nodes[u];
        match h {
            Prov::Own | Prov::Clone => own.clone(),
            Prov::Get => match &self.graph {
                Some(g) => F::g_get(g, u).unwrap_or_else(|| own.clone()),
                None => own.clone(),
            },
            Prov::Index => match &self.graph {
                Some(g) if F::g_contains(g, u) => F::g_index(g, u),
                _ => own.clone(),
            },
            Prov::EdgeSrc => {
                let mut got = None;
                F::for_out(own, &mut |a, _, _| {
                    got = Some(a);
                    false
                });
                got.unwrap_or_else(|| own.clone())
            }
            Prov::EdgeDst => {
                let mut got = None;
                if F::DIRECTED {
                    F::for_in(own, &mut |_, b, _| {
                        got = Some(b);
                        false
                    });
                } else {
                    let mut nb = None;
                    F::for_out(own, &mut |_, b, _| {
                        nb = Some(b);
                        false
                    });
                    if let Some(nb) = nb {
                        let mut steps = 0;
                        F::for_out(&nb, &mut |_, b, _| {
                            steps += 1;
                            if F::key(&b) == u {
                                got = Some(b);
                                false
                            } else {
                                steps < ITER_CAP
                            }
                        });
                    }
                }
                got.unwrap_or_else(|| own.clone())
            }
            Prov::Search | Prov::PathNode => {
                for w in 0..self.n() {
                    if w == u {
                        continue;
                    }
                    let spec = SearchSpec {
                        kind: SKind::Bfs,
                        mode: if h == Prov::Search { SMode::Find } else { SMode::Path },
                        target: Some(u),
                        transpose: false,
                        closure: Closure::None,
                        mask: 0,
                        query: false,
                    };
                    match F::search(&self.nodes[w], &spec, &mut |_, _, _| true) {
                        SearchOut::Node(Some(x)) => return x,
                        SearchOut::Path(Some(p)) => {
                            if let Some(last) = p.last() {
                                return last.1.clone();
                            }
                        }
                        _ => {}
                    }
                }
                own.clone()
            }
        }
    }

    pub fn lists_of(node: &F::Node) -> Lists {
        let mut out = Vec::new();
        let mut inn = Vec::new();
        F::for_out(node, &mut |_, b, e| {
            out.push((F::key(&b), e.0));
            out.len() < ITER_CAP
        });
        F::for_in(node, &mut |a, b, e| {
            let other = if F::DIRECTED { a } else { b };
            inn.push((F::key(&other), e.0));
            inn.len() < ITER_CAP
        });
        (out, inn)
    }

    pub fn lists(&self, u: usize) -> Lists {
        Self::lists_of(&self.nodes[u])
    }

    /// Executes one operation through the public API (no catching).
    pub fn exec_raw(&self, op: &Op) -> Obs {
        match op {
            // `Own` calls go through the original handle object itself (for u == v the very
            // same object on both sides of the call); every other provenance yields a distinct
            // handle object of the same node
            Op::Connect { u, v, e, h: Prov::Own } => {
                F::connect(&self.nodes[*u], &self.nodes[*v], EVal::new(*e));
                Obs::Unit
            }
            Op::TryConnect { u, v, e, h: Prov::Own } => {
                Obs::Res(F::try_connect(&self.nodes[*u], &self.nodes[*v], EVal::new(*e)).map_err(er))
            }
            Op::Disconnect { u, k, h: Prov::Own } => {
                Obs::ResVal(F::disconnect(&self.nodes[*u], *k).map(|e| e.0).map_err(er))
            }
            Op::Isolate { u, h: Prov::Own } => {
                F::isolate(&self.nodes[*u]);
                Obs::Unit
            }
            Op::Connect { u, v, e, h } => {
                let hu = self.handle(*u, *h);
                F::connect(&hu, &self.nodes[*v], EVal::new(*e));
                Obs::Unit
            }
            Op::TryConnect { u, v, e, h } => {
                let hu = self.handle(*u, *h);
                Obs::Res(F::try_connect(&hu, &self.nodes[*v], EVal::new(*e)).map_err(er))
            }
            Op::Disconnect { u, k, h } => {
                let hu = self.handle(*u, *h);
                Obs::ResVal(F::disconnect(&hu, *k).map(|e| e.0).map_err(er))
            }
            Op::Isolate { u, h } => {
                let hu = self.handle(*u, *h);
                F::isolate(&hu);
                Obs::Unit
            }
            Op::OutDeg { u } => Obs::Num(F::out_degree(&self.nodes[*u])),
            Op::InDeg { u } => Obs::Num(F::in_degree(&self.nodes[*u])),
            Op::IsRoot { u } => Obs::Bool(F::is_root(&self.nodes[*u])),
            Op::IsLeaf { u } => Obs::Bool(F::is_leaf(&self.nodes[*u])),
            Op::IsOrphan { u } => Obs::Bool(F::is_orphan(&self.nodes[*u])),
            Op::IsConnected { u, k } => Obs::Bool(F::is_connected(&self.nodes[*u], *k)),
            Op::FindOut { u, k } => Obs::OptKey(F::find_out(&self.nodes[*u], *k).map(|n| F::key(&n))),
            Op::FindIn { u, k } => Obs::OptKey(F::find_in(&self.nodes[*u], *k).map(|n| F::key(&n))),
            Op::Snapshot { u } => {
                let (out, inn) = self.lists(*u);
                Obs::Lists { out, inn }
            }
            Op::SnapshotVia { u, style } => {
                // styles that visit every element: for_each, try_for_each, fold; the body asks the
                // iterated node a question (a read lock of its own)
                // ... and the two that ask the iterator for its size on the way (`size_hint()`
                // around every `next()`; `map().collect()`): a hint computed from a length another
                // thread may have changed since the last step
                let st = match style % 5 {
                    0 => 3,
                    1 => 4,
                    2 => 7,
                    3 => 1,
                    _ => 2,
                };
                let node = &self.nodes[*u];
                let mut out = Vec::new();
                let mut inn = Vec::new();
                F::for_adapted(node, 0, st, &mut |a, b, e| {
                    let _ = F::out_degree(&a);
                    out.push((F::key(&b), e.0));
                    out.len() < ITER_CAP
                });
                F::for_adapted(node, 1, st, &mut |a, b, e| {
                    let _ = F::in_degree(&b);
                    let other = if F::DIRECTED { a } else { b };
                    inn.push((F::key(&other), e.0));
                    inn.len() < ITER_CAP
                });
                Obs::Lists { out, inn }
            }
            Op::Search { root, spec } => search_obs::<F>(&self.nodes[*root], spec),
            Op::GView { kind } => {
                let Some(g) = self.graph.as_ref() else { return Obs::Unsupported };
                let keys = |v: Vec<F::Node>| {
                    let mut k: Vec<usize> = v.iter().map(|n| F::key(n)).collect();
                    k.sort();
                    Obs::Keys(k)
                };
                match kind % 9 {
                    0 => F::g_roots(g).map(keys).unwrap_or(Obs::Unsupported),
                    1 => F::g_leaves(g).map(keys).unwrap_or(Obs::Unsupported),
                    2 => keys(F::g_orphans(g)),
                    3 => keys(F::g_to_vec(g)),
                    4 => Obs::Num(F::g_to_dot(g).len()),
                    5 => F::g_scc(g)
                        .map(|c| {
                            // the partition itself, as sorted lists of keys (listed twice is visible)
                            let mut p: Vec<Vec<usize>> = c.iter().map(|comp| {
                                let mut k: Vec<usize> = comp.iter().map(|n| F::key(n)).collect();
                                k.sort();
                                k
                            }).collect();
                            p.sort();
                            Obs::Text(format!("{p:?}"))
                        })
                        .unwrap_or(Obs::Unsupported),
                    6 => match F::g_ser(g, crate::flavour::Wire::Json) {
                        Ok(b) => match parse_doc_edges(&b) {
                            Some(e) => Obs::Edges(e),
                            None => Obs::Text(String::from_utf8_lossy(&b).into_owned()),
                        },
                        Err(e) => Obs::Text(format!("error: {e}")),
                    },
                    7 => F::g_to_dot_attr(g, crate::flavour::DotSpec { g: true, nmask: 0x5555, emask: 0x3333 })
                        .map(|t| Obs::Num(t.len()))
                        .unwrap_or(Obs::Unsupported),
                    _ => {
                        let mut k: Vec<usize> = F::g_iter(g).iter().map(|(k, _)| *k).collect();
                        k.sort();
                        Obs::Keys(k)
                    }
                }
            }
        }
    }

    pub fn exec(&self, op: &Op) -> Obs {
        match caught(|| self.exec_raw(op)) {
            Caught::Ok(o) => o,
            Caught::Panic(m) => Obs::Panic(m),
            Caught::Abort(m) => Obs::Abort(m),
        }
    }

    /// Builds the initial edges (through `connect`, original handles).
    pub fn seed_edges(&self, edges: &[(usize, usize, u64)]) {
        for (u, v, e) in edges {
            F::connect(&self.nodes[*u], &self.nodes[*v], EVal::new(*e));
        }
    }

    /// Compares the real graph with the model, reading it from both endpoints.
    pub fn compare_with(&self, m: &Model) -> Result<(), String> {
        self.compare_with_skipping(m, &[])
    }

    /// as `compare_with`, leaving out the nodes in `skip` (nodes that currently carry an edge the
    /// model does not describe)
    pub fn compare_with_skipping(&self, m: &Model, skip: &[usize]) -> Result<(), String> {
        for u in 0..self.n() {
            if skip.contains(&u) {
                continue;
            }
            let (out, inn) = self.lists(u);
            if F::DIRECTED {
                if out != m.out(u) {
                    return Err(format!(
                        "node {u}: outgoing list {:?}, reference {:?}",
                        out,
                        m.out(u)
                    ));
                }
                if inn != m.inn(u) {
                    return Err(format!(
                        "node {u}: incoming list {:?}, reference {:?}",
                        inn,
                        m.inn(u)
                    ));
                }
            } else {
                let mut a = out.clone();
                a.sort();
                if a != m.adj(u) {
                    return Err(format!(
                        "node {u}: adjacency {:?}, reference {:?}",
                        a,
                        m.adj(u)
                    ));
                }
            }
        }
        Ok(())
    }

    /// C01: the directed mirror invariant, read from the real nodes only.
    pub fn check_mirror(&self) -> Result<(), String> {
        self.check_mirror_level(2)
    }

    /// `level` 0: the edge lists only; 1: also degrees and predicates; 2: also every
    /// neighbour lookup of every pair. (Observation must not be what keeps the invariant true:
    /// runs choose different levels.)
    pub fn check_mirror_level(&self, level: u8) -> Result<(), String> {
        let n = self.n();
        let all: Vec<Lists> = (0..n).map(|u| self.lists(u)).collect();
        for u in 0..n {
            for v in 0..n {
                let from_u: Vec<u64> = all[u].0.iter().filter(|(k, _)| *k == v).map(|x| x.1).collect();
                let at_v: Vec<u64> = all[v].1.iter().filter(|(k, _)| *k == u).map(|x| x.1).collect();
                if from_u != at_v {
                    return Err(format!(
                        "edges {u}->{v}: source lists values {from_u:?}, target lists {at_v:?}"
                    ));
                }
            }
            // every listed neighbour key must be one of the live nodes
            for (k, _) in all[u].0.iter().chain(all[u].1.iter()) {
                if *k >= n {
                    return Err(format!("node {u} lists unknown key {k}"));
                }
            }
        }
        if level == 0 {
            return Ok(());
        }
        for u in 0..n {
            let node = &self.nodes[u];
            let (out, inn) = &all[u];
            let od = F::out_degree(node);
            let id = F::in_degree(node);
            if od != out.len() || id != inn.len() {
                return Err(format!(
                    "node {u}: out_degree {od} / in_degree {id} but lists have {} / {}",
                    out.len(),
                    inn.len()
                ));
            }
            if F::is_leaf(node) != out.is_empty()
                || F::is_root(node) != inn.is_empty()
                || F::is_orphan(node) != (out.is_empty() && inn.is_empty())
            {
                return Err(format!(
                    "node {u}: root/leaf/orphan = {}/{}/{} disagree with lists out={out:?} in={inn:?}",
                    F::is_root(node),
                    F::is_leaf(node),
                    F::is_orphan(node)
                ));
            }
            if level == 1 {
                continue;
            }
            for v in 0..n {
                let has_out = out.iter().any(|(k, _)| *k == v);
                let has_in = inn.iter().any(|(k, _)| *k == v);
                let fo = F::find_out(node, v).map(|x| F::key(&x));
                let fi = F::find_in(node, v).map(|x| F::key(&x));
                if F::is_connected(node, v) != has_out
                    || fo != if has_out { Some(v) } else { None }
                    || fi != if has_in { Some(v) } else { None }
                {
                    return Err(format!(
                        "node {u} vs key {v}: is_connected={} find_outbound={fo:?} find_inbound={fi:?} but out={out:?} in={inn:?}",
                        F::is_connected(node, v)
                    ));
                }
                // the other endpoint describes the same edge set
                let other_in = F::find_in(&self.nodes[v], u).is_some();
                if has_out != other_in {
                    return Err(format!(
                        "edge {u}->{v}: source says {has_out}, target's find_inbound says {other_in}"
                    ));
                }
            }
        }
        Ok(())
    }

    /// C02: undirected symmetry, read from the real nodes only.
    pub fn check_symmetry(&self) -> Result<(), String> {
        self.check_symmetry_level(2)
    }

    pub fn check_symmetry_level(&self, level: u8) -> Result<(), String> {
        let n = self.n();
        let all: Vec<Vec<(usize, u64)>> = (0..n).map(|u| self.lists(u).0).collect();
        for u in 0..n {
            for (k, _) in &all[u] {
                if *k >= n {
                    return Err(format!("node {u} lists unknown key {k}"));
                }
            }
            // every (neighbour, value) pair that occurs at u, once; a pair that occurs only at the
            // other endpoint is met when that endpoint is u. Both lists sorted once: counting is a
            // range, not a rescan (a hub of 4000+ entries is otherwise cubic).
            let mut pairs: Vec<(usize, u64)> = all[u].clone();
            pairs.sort();
            pairs.dedup();
            let sorted_u = {
                let mut x = all[u].clone();
                x.sort();
                x
            };
            let count_in = |sorted: &Vec<(usize, u64)>, key: (usize, u64)| {
                sorted.partition_point(|x| *x <= key) - sorted.partition_point(|x| *x < key)
            };
            let mut sorted_cache: BTreeMap<usize, Vec<(usize, u64)>> = BTreeMap::new();
            {
                for (v, e) in &pairs {
                    let (v, e) = (*v, e);
                    let cu = count_in(&sorted_u, (v, *e));
                    let sv = sorted_cache.entry(v).or_insert_with(|| {
                        let mut x = all[v].clone();
                        x.sort();
                        x
                    });
                    let cv = count_in(sv, (u, *e));
                    if u == v {
                        if cu % 2 != 0 {
                            return Err(format!(
                                "self-loop value {e} at node {u} is listed {cu} time(s); a self-loop counts twice"
                            ));
                        }
                    } else if cu != cv {
                        return Err(format!(
                            "edge {{{u},{v}}} value {e}: listed {cu}x at {u} but {cv}x at {v}"
                        ));
                    }
                }
            }
            if level == 0 {
                continue;
            }
            let d = F::out_degree(&self.nodes[u]);
            if d != all[u].len() {
                return Err(format!("node {u}: degree {d} but iter yields {}", all[u].len()));
            }
            if F::is_orphan(&self.nodes[u]) != all[u].is_empty() {
                return Err(format!("node {u}: is_orphan disagrees with adjacency {:?}", all[u]));
            }
        }
        if level < 2 {
            return Ok(());
        }
        for u in 0..n {
            for v in 0..n {
                let a = F::is_connected(&self.nodes[u], v);
                let b = F::is_connected(&self.nodes[v], u);
                let fa = F::find_out(&self.nodes[u], v).map(|x| F::key(&x));
                let fb = F::find_out(&self.nodes[v], u).map(|x| F::key(&x));
                let listed = all[u].iter().any(|x| x.0 == v);
                if a != b || a != listed || fa != if a { Some(v) } else { None } || fb != if b { Some(u) } else { None } {
                    return Err(format!(
                        "pair {{{u},{v}}}: is_connected {a}/{b}, find_adjacent {fa:?}/{fb:?}, listed at {u}: {listed}"
                    ));
                }
            }
        }
        Ok(())
    }

    pub fn check_invariant(&self) -> Result<(), String> {
        self.check_invariant_level(2)
    }

    pub fn check_invariant_level(&self, level: u8) -> Result<(), String> {
        if F::DIRECTED {
            self.check_mirror_level(level)
        } else {
            self.check_symmetry_level(level)
        }
    }
}

pub fn er(e: GErr) -> Er {
    match e {
        GErr::NotFound => Er::NotFound,
        GErr::Exists => Er::Exists,
        GErr::Other => Er::Other,
    }
}

pub fn edges_obs<F: Flavour>(v: &[(F::Node, F::Node, EVal)]) -> Vec<(usize, usize, u64)> {
    v.iter().map(|(a, b, e)| (F::key(a), F::key(b), e.0)).collect()
}

pub fn search_out_obs<F: Flavour>(out: SearchOut<F::Node>) -> Obs {
    match out {
        SearchOut::Node(n) => Obs::OptKey(n.map(|n| F::key(&n))),
        SearchOut::Path(p) => Obs::OptEdges(p.map(|p| edges_obs::<F>(&p))),
        SearchOut::Nodes(v) => Obs::Keys(v.iter().map(|n| F::key(n)).collect()),
        SearchOut::Edges(v) => Obs::Edges(edges_obs::<F>(&v)),
    }
}

/// A traversal with a pure closure (filter by value mask / for_each recording).
pub fn search_obs<F: Flavour>(root: &F::Node, spec: &SearchSpec) -> Obs {
    let mut seen = Vec::new();
    let mask = spec.mask;
    let out = F::search(root, spec, &mut |a, b, e| {
        if seen.len() < ITER_CAP {
            seen.push((F::key(a), F::key(b), e.0));
        }
        if spec.query {
            let _ = F::out_degree(a);
            let _ = F::in_degree(b);
        }
        mask & (1 << (e.0 % 16)) == 0
    });
    Obs::Search {
        result: Box::new(search_out_obs::<F>(out)),
        seen,
    }
}

/// the edge list `[u, v, value]...` of a serialised graph document `[nodes, edges]` (JSON)
pub fn parse_doc_edges(bytes: &[u8]) -> Option<Vec<(usize, usize, u64)>> {
    let v: serde_json::Value = serde_json::from_slice(bytes).ok()?;
    let top = v.as_array()?;
    if top.len() != 2 {
        return None;
    }
    top[0].as_array()?;
    let mut out = Vec::new();
    for e in top[1].as_array()? {
        let e = e.as_array()?;
        if e.len() != 3 {
            return None;
        }
        out.push((crate::keys::kout_raw(e[0].as_u64()? as usize), crate::keys::kout_raw(e[1].as_u64()? as usize), e[2].as_u64()?));
    }
    Some(out)
}
