//! Batch runner, statistics, minimiser, replay files and evidence writer.

use crate::rng::{self, Rng};
use serde::{de::DeserializeOwned, Deserialize, Serialize};
use serde_json::{json, Value};
use std::collections::{BTreeMap, BTreeSet};
use std::sync::atomic::{AtomicU64, Ordering};
use std::sync::Mutex;
use std::time::{Duration, Instant};

#[derive(Clone, Copy, Debug, PartialEq, Eq)]
pub enum Tier {
    Quick,
    Thorough,
}

impl Tier {
    pub fn as_str(&self) -> &'static str {
        match self {
            Tier::Quick => "quick",
            Tier::Thorough => "thorough",
        }
    }
}

#[derive(Clone, Debug, Serialize, Deserialize, PartialEq)]
pub struct Violation {
    /// stable class of the violation (minimisation keeps it)
    pub class: String,
    pub detail: String,
}

impl Violation {
    pub fn new(class: impl Into<String>, detail: impl Into<String>) -> Self {
        Violation {
            class: class.into(),
            detail: detail.into(),
        }
    }
}

#[derive(Default, Clone, Debug)]
pub struct Stats {
    pub counters: BTreeMap<String, u64>,
    pub distinct: BTreeMap<String, BTreeSet<u64>>,
    pub samples: Vec<Value>,
    /// violations that were attributed to another property (not a verdict here)
    pub notes: BTreeSet<String>,
}

impl Stats {
    pub fn inc(&mut self, k: &str) {
        *self.counters.entry(k.to_string()).or_insert(0) += 1;
    }
    pub fn add(&mut self, k: &str, n: u64) {
        *self.counters.entry(k.to_string()).or_insert(0) += n;
    }
    pub fn mark(&mut self, k: &str, h: u64) {
        self.distinct.entry(k.to_string()).or_default().insert(h);
    }
    pub fn get(&self, k: &str) -> u64 {
        *self.counters.get(k).unwrap_or(&0)
    }
    pub fn count(&self, k: &str) -> u64 {
        self.distinct.get(k).map(|s| s.len() as u64).unwrap_or(0)
    }
    pub fn sample(&mut self, v: Value) {
        if self.samples.len() < 3 {
            self.samples.push(v);
        }
    }
    pub fn note(&mut self, s: String) {
        if self.notes.len() < 20 {
            self.notes.insert(s);
        }
    }
    pub fn merge(&mut self, o: Stats) {
        for (k, v) in o.counters {
            *self.counters.entry(k).or_insert(0) += v;
        }
        for (k, v) in o.distinct {
            self.distinct.entry(k).or_default().extend(v);
        }
        for s in o.samples {
            if self.samples.len() < 4 {
                self.samples.push(s);
            }
        }
        self.notes.extend(o.notes);
    }
}

pub trait Engine: Sync {
    type Sc: Clone + Serialize + DeserializeOwned + Send + 'static;
    fn name(&self) -> &'static str;
    fn generate(&self, rng: &mut Rng, tier: Tier) -> Self::Sc;
    /// Runs one scenario. On a violation returns it together with the pinned
    /// scenario (every decision recorded) that reproduces it exactly.
    fn execute(&self, sc: &Self::Sc, stats: &mut Stats) -> Option<(Violation, Self::Sc)>;
    /// Simpler candidate scenarios, most aggressive first.
    fn shrink(&self, sc: &Self::Sc) -> Vec<Self::Sc>;
    /// size measure used to report minimisation progress
    fn size(&self, sc: &Self::Sc) -> usize;
}

pub struct BatchOut<S> {
    pub runs: u64,
    pub stats: Stats,
    pub violation: Option<(u64, Violation, S)>,
    pub wall: Duration,
}

pub fn workers() -> usize {
    std::env::var("VERIF_WORKERS")
        .ok()
        .and_then(|s| s.parse().ok())
        .unwrap_or_else(|| std::thread::available_parallelism().map(|n| n.get()).unwrap_or(4))
}

/// Runs `runs` seeded scenarios on all workers. Run `i` depends only on
/// (seed, tag, i). Stops early at the lowest-index violation.
pub fn run_batch<E: Engine>(e: &E, tag: &str, seed: u64, runs: u64, tier: Tier, cap: Duration) -> BatchOut<E::Sc> {
    let next = AtomicU64::new(0);
    let stop_at = AtomicU64::new(u64::MAX);
    let done = AtomicU64::new(0);
    let found: Mutex<Option<(u64, Violation, E::Sc)>> = Mutex::new(None);
    let all_stats: Mutex<Stats> = Mutex::new(Stats::default());
    let start = Instant::now();
    let nw = workers();
    std::thread::scope(|s| {
        for _ in 0..nw {
            s.spawn(|| {
                let mut stats = Stats::default();
                loop {
                    let i = next.fetch_add(1, Ordering::SeqCst);
                    if i >= runs || i >= stop_at.load(Ordering::SeqCst) {
                        break;
                    }
                    if start.elapsed() > cap {
                        stats.inc("batch_stopped_by_time_cap");
                        break;
                    }
                    let mut r = rng::stream(seed, tag, i);
                    let sc = e.generate(&mut r, tier);
                    if i < 3 {
                        stats.sample(json!({"run": i, "scenario": serde_json::to_value(&sc).unwrap()}));
                    }
                    let res = e.execute(&sc, &mut stats);
                    done.fetch_add(1, Ordering::SeqCst);
                    if let Some((v, pinned)) = res {
                        let mut f = found.lock().unwrap();
                        let better = match &*f {
                            Some((j, _, _)) => i < *j,
                            None => true,
                        };
                        if better {
                            *f = Some((i, v, pinned));
                            stop_at.fetch_min(i, Ordering::SeqCst);
                        }
                    }
                }
                all_stats.lock().unwrap().merge(stats);
            });
        }
    });
    BatchOut {
        runs: done.load(Ordering::SeqCst),
        stats: all_stats.into_inner().unwrap(),
        violation: found.into_inner().unwrap(),
        wall: start.elapsed(),
    }
}

/// Delta-debugs a failing scenario while the same violation class persists.
pub fn minimise<E: Engine>(e: &E, sc: E::Sc, v: Violation, budget: Duration) -> (E::Sc, Violation, u64) {
    let start = Instant::now();
    let mut cur = sc;
    let mut viol = v;
    let mut steps = 0u64;
    let mut dummy = Stats::default();
    'outer: loop {
        if start.elapsed() > budget {
            break;
        }
        for cand in e.shrink(&cur) {
            if start.elapsed() > budget {
                break 'outer;
            }
            if e.size(&cand) > e.size(&cur) {
                continue;
            }
            if let Some((v2, pinned)) = e.execute(&cand, &mut dummy) {
                if v2.class == viol.class {
                    cur = pinned;
                    viol = v2;
                    steps += 1;
                    continue 'outer;
                }
            }
        }
        break;
    }
    (cur, viol, steps)
}

#[derive(Serialize, Deserialize)]
pub struct ReplayFile {
    pub property: String,
    pub engine: String,
    pub seed: u64,
    pub run: u64,
    pub violation: Violation,
    pub scenario: Value,
}

pub fn verif_root() -> String {
    std::env::var("VERIF_ROOT").unwrap_or_else(|_| "/verif".to_string())
}

pub fn write_replay<S: Serialize>(prop: &str, engine: &str, seed: u64, run: u64, v: &Violation, sc: &S) -> String {
    let dir = format!("{}/replay", verif_root());
    let _ = std::fs::create_dir_all(&dir);
    let path = format!("{dir}/{prop}-{engine}-{seed}-{run}.json");
    let rf = ReplayFile {
        property: prop.to_string(),
        engine: engine.to_string(),
        seed,
        run,
        violation: v.clone(),
        scenario: serde_json::to_value(sc).unwrap(),
    };
    std::fs::write(&path, serde_json::to_string_pretty(&rf).unwrap()).expect("write replay file");
    path
}

/// Re-executes a replay file in this process. Returns the violation observed.
pub fn replay_scenario<E: Engine>(e: &E, rf: &ReplayFile) -> Result<Option<Violation>, String> {
    let sc: E::Sc = serde_json::from_value(rf.scenario.clone()).map_err(|e| format!("replay file does not parse: {e}"))?;
    let mut st = Stats::default();
    Ok(e.execute(&sc, &mut st).map(|(v, _)| v))
}

pub struct Evidence<'a> {
    pub property: &'a str,
    pub tier: Tier,
    pub seed: u64,
    pub level: &'a str,
    pub evaluations: u64,
    pub distinct_nontrivial: u64,
    pub rule: &'a str,
    pub samples: Vec<Value>,
    pub extra: Value,
    pub assumptions: Vec<String>,
    pub wall_s: f64,
    pub violations: u64,
}

pub fn write_evidence(ev: &Evidence) {
    let dir = format!("{}/evidence", verif_root());
    let _ = std::fs::create_dir_all(&dir);
    let mut coverage = json!({
        "evaluations": ev.evaluations,
        "distinct_nontrivial": ev.distinct_nontrivial,
        "rule": ev.rule,
        "samples": ev.samples,
    });
    if let (Some(c), Some(x)) = (coverage.as_object_mut(), ev.extra.as_object()) {
        for (k, v) in x {
            c.insert(k.clone(), v.clone());
        }
    }
    let doc = json!({
        "property_id": ev.property,
        "tier": ev.tier.as_str(),
        "seed": ev.seed,
        "level": ev.level,
        "coverage": coverage,
        "assumptions": ev.assumptions,
        "wall_s": ev.wall_s,
        "violations": ev.violations,
    });
    let path = format!("{dir}/{}.json", ev.property);
    std::fs::write(&path, serde_json::to_string_pretty(&doc).unwrap()).expect("write evidence");
}

pub fn stats_json(s: &Stats) -> Value {
    let mut counters = serde_json::Map::new();
    for (k, v) in &s.counters {
        counters.insert(k.clone(), json!(v));
    }
    let mut distinct = serde_json::Map::new();
    for (k, v) in &s.distinct {
        distinct.insert(k.clone(), json!(v.len()));
    }
    json!({"counters": counters, "distinct": distinct, "notes": s.notes})
}

/// development aid: restrict generation to one flavour (never set by the registered checks)
pub fn only_flavour() -> Option<String> {
    std::env::var("GSIM_ONLY_FLAVOUR").ok()
}
