//! Batch runner (one single-threaded simulator process per worker), statistics,
//! minimiser, replay files and evidence writer.
//!
//! Workers are separate processes because gdsl has process-global state (the
//! mutation lock of the sync flavours): two simulations inside one process
//! would meet on it, and a lock held by another simulation is a source of
//! nondeterminism the simulator does not own.

use crate::rng::{self, Rng};
use serde::{de::DeserializeOwned, Deserialize, Serialize};
use serde_json::{json, Value};
use std::collections::{BTreeMap, BTreeSet};
use std::io::{BufRead, BufReader, Write};
use std::process::{Command, Stdio};
use std::sync::atomic::{AtomicU64, Ordering};
use std::sync::{Arc, Mutex};
use std::time::{Duration, Instant};

#[derive(Clone, Copy, Debug, PartialEq, Eq)]
pub enum Tier {
    Quick,
    Thorough,
}

impl Tier {
    pub fn as_str(&self) -> &'static str {
        match self {
            Tier::Quick => "quick",
            Tier::Thorough => "thorough",
        }
    }
    pub fn parse(s: &str) -> Option<Tier> {
        match s {
            "quick" => Some(Tier::Quick),
            "thorough" => Some(Tier::Thorough),
            _ => None,
        }
    }
}

#[derive(Clone, Debug, Serialize, Deserialize, PartialEq)]
pub struct Violation {
    /// stable class of the violation (minimisation keeps it)
    pub class: String,
    pub detail: String,
}

impl Violation {
    pub fn new(class: impl Into<String>, detail: impl Into<String>) -> Self {
        Violation {
            class: class.into(),
            detail: detail.into(),
        }
    }
}

/// sketch size in bits: 2^25 (quick) or 2^27 (thorough, where tens of millions of distinct
/// fingerprints would saturate the smaller one); every process of a batch uses the same size
pub fn bitmap_bits() -> usize {
    static BITS: std::sync::OnceLock<usize> = std::sync::OnceLock::new();
    *BITS.get_or_init(|| {
        let log2: u32 = std::env::var("GSIM_SKETCH_LOG2").ok().and_then(|s| s.parse().ok()).unwrap_or(25);
        1usize << log2.clamp(20, 30)
    })
}

/// Fixed-size sketch of a set of 64-bit fingerprints: the number of set bits
/// is a lower bound of the number of distinct fingerprints (collisions only
/// undercount), and sketches of different worker processes merge by OR.
#[derive(Clone, Debug)]
pub struct Bitmap {
    pub words: Vec<u64>,
}

impl Default for Bitmap {
    fn default() -> Self {
        Bitmap {
            words: vec![0; bitmap_bits() / 64],
        }
    }
}

impl Bitmap {
    pub fn set(&mut self, h: u64) {
        let i = (rng::mix(h) as usize) % bitmap_bits();
        self.words[i / 64] |= 1 << (i % 64);
    }
    pub fn count(&self) -> u64 {
        self.words.iter().map(|w| w.count_ones() as u64).sum()
    }
    pub fn or(&mut self, o: &Bitmap) {
        for (a, b) in self.words.iter_mut().zip(&o.words) {
            *a |= *b;
        }
    }
    fn indices(&self) -> Vec<u32> {
        let mut v = Vec::new();
        for (wi, w) in self.words.iter().enumerate() {
            let mut w = *w;
            while w != 0 {
                let b = w.trailing_zeros();
                v.push((wi * 64) as u32 + b);
                w &= w - 1;
            }
        }
        v
    }
    pub fn to_bytes(&self) -> Vec<u8> {
        let idx = self.indices();
        if idx.len() * 4 < bitmap_bits() / 8 {
            let mut out = vec![b'S'];
            for i in idx {
                out.extend_from_slice(&i.to_le_bytes());
            }
            out
        } else {
            let mut out = vec![b'D'];
            for w in &self.words {
                out.extend_from_slice(&w.to_le_bytes());
            }
            out
        }
    }
    pub fn from_bytes(b: &[u8]) -> Bitmap {
        let mut m = Bitmap::default();
        match b.first() {
            Some(b'S') => {
                for c in b[1..].chunks_exact(4) {
                    let i = u32::from_le_bytes([c[0], c[1], c[2], c[3]]) as usize;
                    m.words[i / 64] |= 1 << (i % 64);
                }
            }
            Some(b'D') => {
                for (w, c) in m.words.iter_mut().zip(b[1..].chunks_exact(8)) {
                    *w = u64::from_le_bytes([c[0], c[1], c[2], c[3], c[4], c[5], c[6], c[7]]);
                }
            }
            _ => {}
        }
        m
    }
}

#[derive(Default, Clone, Debug)]
pub struct Stats {
    pub counters: BTreeMap<String, u64>,
    pub distinct: BTreeMap<String, Bitmap>,
    pub samples: Vec<Value>,
    /// observations attributed to another property (not a verdict here)
    pub notes: BTreeSet<String>,
}

impl Stats {
    pub fn inc(&mut self, k: &str) {
        *self.counters.entry(k.to_string()).or_insert(0) += 1;
    }
    pub fn add(&mut self, k: &str, n: u64) {
        if n > 0 {
            *self.counters.entry(k.to_string()).or_insert(0) += n;
        }
    }
    pub fn mark(&mut self, k: &str, h: u64) {
        if let Some(b) = self.distinct.get_mut(k) {
            b.set(h);
        } else {
            let mut b = Bitmap::default();
            b.set(h);
            self.distinct.insert(k.to_string(), b);
        }
    }
    pub fn get(&self, k: &str) -> u64 {
        *self.counters.get(k).unwrap_or(&0)
    }
    pub fn count(&self, k: &str) -> u64 {
        self.distinct.get(k).map(|s| s.count()).unwrap_or(0)
    }
    pub fn sample(&mut self, v: Value) {
        if self.samples.len() < 3 {
            self.samples.push(v);
        }
    }
    pub fn note(&mut self, s: String) {
        if self.notes.len() < 20 {
            self.notes.insert(s);
        }
    }
    pub fn merge(&mut self, o: Stats) {
        for (k, v) in o.counters {
            *self.counters.entry(k).or_insert(0) += v;
        }
        for (k, v) in o.distinct {
            match self.distinct.get_mut(&k) {
                Some(b) => b.or(&v),
                None => {
                    self.distinct.insert(k, v);
                }
            }
        }
        for s in o.samples {
            if self.samples.len() < 4 {
                self.samples.push(s);
            }
        }
        for n in o.notes {
            self.note(n);
        }
    }
}

pub trait Engine: Sync {
    type Sc: Clone + Serialize + DeserializeOwned + Send + 'static;
    fn name(&self) -> &'static str;
    fn generate(&self, rng: &mut Rng, tier: Tier) -> Self::Sc;
    /// Runs one scenario. On a violation returns it together with the pinned
    /// scenario (every decision recorded) that reproduces it exactly.
    fn execute(&self, sc: &Self::Sc, stats: &mut Stats) -> Option<(Violation, Self::Sc)>;
    /// Simpler candidate scenarios, most aggressive first.
    fn shrink(&self, sc: &Self::Sc) -> Vec<Self::Sc>;
    /// size measure: minimisation only accepts strictly smaller scenarios
    fn size(&self, sc: &Self::Sc) -> usize;
}

/// Type-erased engine (scenarios as JSON values) so that worker processes and
/// replay can look an engine up by key.
pub trait DynEngine: Sync {
    fn engine_name(&self) -> &'static str;
    #[allow(clippy::too_many_arguments)]
    fn run_range(&self, tag: &str, seed: u64, tier: Tier, offset: u64, stride: u64, runs: u64, cap: Duration, progress: &mut dyn FnMut(u64)) -> WorkerOut;
    fn minimise_dyn(&self, sc: Value, v: Violation, budget: Duration, on_step: &mut dyn FnMut(&Value, &Violation, u64, usize)) -> (Value, Violation, u64, usize, usize);
    fn replay_dyn(&self, sc: &Value) -> Result<Option<Violation>, String>;
    /// the event log of one seeded run, for the determinism self-test
    fn log_run(&self, tag: &str, seed: u64, tier: Tier, index: u64) -> String;
    fn generate_dyn(&self, tag: &str, seed: u64, tier: Tier, index: u64) -> Value;
}

/// `execute` with a safety net: library code that panics outside any call the engine was
/// watching (e.g. in a Drop, or while the harness reads a graph back) is a violation of class
/// `panic`; a panic of the harness itself ends the process with status 3.
pub fn exec_caught<E: Engine>(e: &E, sc: &E::Sc, stats: &mut Stats) -> Option<(Violation, E::Sc)> {
    // every run starts with identity keys; an engine that varies them installs its style itself
    crate::keys::set_style(0);
    let r = exec_caught_inner(e, sc, stats);
    stats.inc(&format!("runs_with_keys_{}", crate::keys::kind_name()));
    if crate::keys::coarse_modulus() > 0 {
        stats.inc("runs_with_a_key_type_whose_lawful_hash_collides");
    }
    if crate::keys::nodes_born_elsewhere() {
        stats.inc("runs_with_nodes_created_on_threads_of_their_own_where_sync");
    }
    let r = match (r, crate::keys::describe()) {
        (Some((mut v, sc)), Some(d)) => {
            v.detail.push_str(&format!(" [nodes are named by index; keys of this run: {d}]"));
            Some((v, sc))
        }
        (r, _) => r,
    };
    crate::keys::set_style(0);
    r
}

fn exec_caught_inner<E: Engine>(e: &E, sc: &E::Sc, stats: &mut Stats) -> Option<(Violation, E::Sc)> {
    match crate::locks::caught(|| e.execute(sc, stats)) {
        crate::locks::Caught::Ok(r) => r,
        crate::locks::Caught::Panic(m) if m.contains("@ src/") => Some((
            Violation::new("panic", format!("library code panicked outside a monitored call: {m}")),
            sc.clone(),
        )),
        crate::locks::Caught::Panic(m) if !m.contains("@ harness:") => Some((
            // std or a dependency panicked on behalf of library code running outside a monitored call
            Violation::new("panic", format!("a panic escaped from code running outside a monitored call: {m}")),
            sc.clone(),
        )),
        crate::locks::Caught::Panic(m) | crate::locks::Caught::Abort(m) => {
            eprintln!("HARNESS-ERROR: the harness itself panicked or aborted a call outside a monitored region: {m}");
            std::process::exit(2);
        }
    }
}

pub struct WorkerOut {
    pub runs: u64,
    pub stats: Stats,
    pub violation: Option<(u64, Violation, Value)>,
}

impl<E: Engine> DynEngine for E {
    fn engine_name(&self) -> &'static str {
        self.name()
    }

    fn run_range(&self, tag: &str, seed: u64, tier: Tier, offset: u64, stride: u64, runs: u64, cap: Duration, progress: &mut dyn FnMut(u64)) -> WorkerOut {
        let start = Instant::now();
        let mut stats = Stats::default();
        let mut done = 0;
        let mut violation = None;
        let mut i = offset;
        while i < runs {
            if start.elapsed() > cap {
                stats.inc("batch_stopped_by_time_cap");
                break;
            }
            progress(i);
            let mut r = rng::stream(seed, tag, i);
            let sc = self.generate(&mut r, tier);
            if i < 3 {
                stats.sample(json!({"run": i, "scenario": serde_json::to_value(&sc).unwrap()}));
            }
            let res = exec_caught(self, &sc, &mut stats);
            done += 1;
            if let Some((v, pinned)) = res {
                violation = Some((i, v, serde_json::to_value(&pinned).unwrap()));
                break;
            }
            i += stride;
        }
        WorkerOut {
            runs: done,
            stats,
            violation,
        }
    }

    fn minimise_dyn(&self, sc: Value, v: Violation, budget: Duration, on_step: &mut dyn FnMut(&Value, &Violation, u64, usize)) -> (Value, Violation, u64, usize, usize) {
        let sc: E::Sc = serde_json::from_value(sc).expect("scenario round trip");
        let before = self.size(&sc);
        let (m, v, steps) = minimise_with(self, sc, v, budget, &mut |c, v, n| on_step(&serde_json::to_value(c).unwrap(), v, n, self.size(c)));
        let after = self.size(&m);
        (serde_json::to_value(&m).unwrap(), v, steps, before, after)
    }

    fn replay_dyn(&self, sc: &Value) -> Result<Option<Violation>, String> {
        let sc: E::Sc = serde_json::from_value(sc.clone()).map_err(|e| format!("replay file does not parse: {e}"))?;
        let mut st = Stats::default();
        Ok(exec_caught(self, &sc, &mut st).map(|(v, _)| v))
    }

    fn generate_dyn(&self, tag: &str, seed: u64, tier: Tier, index: u64) -> Value {
        let mut r = rng::stream(seed, tag, index);
        serde_json::to_value(self.generate(&mut r, tier)).unwrap()
    }

    fn log_run(&self, tag: &str, seed: u64, tier: Tier, index: u64) -> String {
        let mut r = rng::stream(seed, tag, index);
        let sc = self.generate(&mut r, tier);
        let mut st = Stats::default();
        let res = exec_caught(self, &sc, &mut st);
        let mut counters = String::new();
        for (k, v) in &st.counters {
            counters.push_str(&format!("{k}={v};"));
        }
        let mut fps = String::new();
        for (k, b) in &st.distinct {
            fps.push_str(&format!("{k}={:x};", rng::fnv(&b.to_bytes())));
        }
        format!(
            "{index} sc={:x} res={} counters[{counters}] fps[{fps}]",
            rng::fnv(serde_json::to_string(&sc).unwrap().as_bytes()),
            match res {
                Some((v, p)) => format!("{}|{}|{:x}", v.class, v.detail, rng::fnv(serde_json::to_string(&p).unwrap().as_bytes())),
                None => "ok".to_string(),
            }
        )
    }
}

pub fn workers() -> usize {
    std::env::var("VERIF_WORKERS")
        .ok()
        .and_then(|s| s.parse().ok())
        .unwrap_or_else(|| std::thread::available_parallelism().map(|n| n.get()).unwrap_or(4))
}

pub fn verif_root() -> String {
    std::env::var("VERIF_ROOT").unwrap_or_else(|_| "/verif".to_string())
}

fn ipc_dir() -> String {
    let d = format!("{}/sim/target/ipc", verif_root());
    let _ = std::fs::create_dir_all(&d);
    d
}

#[derive(Serialize, Deserialize)]
struct WorkerFile {
    runs: u64,
    counters: BTreeMap<String, u64>,
    notes: Vec<String>,
    samples: Vec<Value>,
    bitmaps: Vec<(String, String)>,
    violation: Option<(u64, Violation, Value)>,
}

/// Entry point of a worker process:
/// `gsim worker <engine-key> <tag> <seed> <tier> <offset> <stride> <runs> <cap_s> <outfile>`
/// (`args` starts at `<tag>`). Prints the index of every run it starts (heartbeat).
pub fn worker_main(e: &dyn DynEngine, args: &[String]) -> i32 {
    let tag = &args[0];
    let seed: u64 = args[1].parse().unwrap();
    let tier = Tier::parse(&args[2]).unwrap();
    let offset: u64 = args[3].parse().unwrap();
    let stride: u64 = args[4].parse().unwrap();
    let runs: u64 = args[5].parse().unwrap();
    let cap: u64 = args[6].parse().unwrap();
    let outfile = &args[7];
    let stdout = std::io::stdout();
    let mut lock = stdout.lock();
    let mut last_beat = Instant::now();
    let out = e.run_range(tag, seed, tier, offset, stride, runs, Duration::from_secs(cap), &mut |i| {
        let _ = writeln!(lock, "{i}");
        if last_beat.elapsed() > Duration::from_millis(50) || i == offset {
            let _ = lock.flush();
            last_beat = Instant::now();
        }
    });
    let _ = lock.flush();
    let mut bitmaps = Vec::new();
    for (n, (k, b)) in out.stats.distinct.iter().enumerate() {
        let path = format!("{outfile}.{n}.bits");
        std::fs::write(&path, b.to_bytes()).expect("write bitmap");
        bitmaps.push((k.clone(), path));
    }
    let wf = WorkerFile {
        runs: out.runs,
        counters: out.stats.counters,
        notes: out.stats.notes.into_iter().collect(),
        samples: out.stats.samples,
        bitmaps,
        violation: out.violation,
    };
    std::fs::write(outfile, serde_json::to_vec(&wf).unwrap()).expect("write worker result");
    0
}

pub struct BatchOut {
    pub runs: u64,
    pub stats: Stats,
    pub violation: Option<(u64, Violation, Value)>,
    pub wall: Duration,
    /// run index at which a worker process stopped making progress (hang) or died
    pub hung_at: Option<u64>,
    /// workers that ended with a harness error of their own
    pub worker_errors: Vec<String>,
    /// number of worker processes (run i was executed by worker i % workers)
    pub workers: u64,
}

/// Runs `runs` seeded scenarios on worker processes. Run `i` depends only on
/// (seed, tag, i); the reported violation is the one with the lowest index.
pub fn run_batch(engine_key: &str, tag: &str, seed: u64, runs: u64, tier: Tier, cap: Duration) -> BatchOut {
    let start = Instant::now();
    let nw = workers().min(runs.max(1) as usize).max(1);
    let exe = std::env::current_exe().unwrap();
    let dir = ipc_dir();
    let pid = std::process::id();
    let stop_at = Arc::new(AtomicU64::new(u64::MAX));
    let hung: Arc<Mutex<Option<u64>>> = Arc::new(Mutex::new(None));
    let worker_errors: Mutex<Vec<String>> = Mutex::new(Vec::new());
    let stall_limit = Duration::from_secs(
        std::env::var("GSIM_STALL_S").ok().and_then(|s| s.parse().ok()).unwrap_or(120),
    );
    let mut handles = Vec::new();
    for w in 0..nw {
        let outfile = format!("{dir}/{pid}-{}-{w}.json", tag.replace('/', "_"));
        let _ = std::fs::remove_file(&outfile);
        let mut child = Command::new(&exe)
            .arg("worker")
            .arg(engine_key)
            .arg(tag)
            .arg(seed.to_string())
            .arg(tier.as_str())
            .arg(w.to_string())
            .arg(nw.to_string())
            .arg(runs.to_string())
            .arg(cap.as_secs().to_string())
            .arg(&outfile)
            .stdout(Stdio::piped())
            .stdin(Stdio::null())
            .spawn()
            .expect("spawn worker process");
        let stdout = child.stdout.take().unwrap();
        let child = Arc::new(Mutex::new(child));
        let last = Arc::new(Mutex::new((Instant::now(), u64::MAX)));
        let reader = {
            let last = last.clone();
            let stop_at = stop_at.clone();
            let child = child.clone();
            std::thread::spawn(move || {
                let br = BufReader::new(stdout);
                for line in br.lines() {
                    let Ok(line) = line else { break };
                    if let Ok(i) = line.trim().parse::<u64>() {
                        *last.lock().unwrap() = (Instant::now(), i);
                        if i > stop_at.load(Ordering::SeqCst) {
                            let _ = child.lock().unwrap().kill();
                            break;
                        }
                    }
                }
            })
        };
        handles.push((child, reader, last, outfile));
    }
    let mut results: Vec<Option<WorkerFile>> = (0..nw).map(|_| None).collect();
    let mut finished = vec![false; nw];
    loop {
        let mut all = true;
        for (w, (child, _, last, outfile)) in handles.iter().enumerate() {
            if finished[w] {
                continue;
            }
            let status = child.lock().unwrap().try_wait().ok().flatten();
            let exited = status.is_some();
            if exited {
                finished[w] = true;
                if let Some(code) = status.and_then(|s| s.code()) {
                    if code == 2 || code == 3 {
                        // the worker itself reported a harness error (message on its stderr)
                        worker_errors.lock().unwrap().push(format!("worker {w} of {tag} ended with a harness error (exit status {code})"));
                    }
                }
                let parsed = std::fs::read(outfile).ok().and_then(|b| serde_json::from_slice::<WorkerFile>(&b).ok());
                match parsed {
                    Some(wf) => {
                        if let Some((i, _, _)) = &wf.violation {
                            stop_at.fetch_min(*i, Ordering::SeqCst);
                        }
                        results[w] = Some(wf);
                    }
                    None if status.and_then(|s| s.code()).map(|c| c == 2 || c == 3).unwrap_or(false) => {}
                    None => {
                        // the worker died without a result (abort, stack overflow, ...) unless we
                        // killed it ourselves because a lower-index violation is already known
                        let (_, i) = *last.lock().unwrap();
                        let idx = if i == u64::MAX { w as u64 } else { i };
                        if idx <= stop_at.load(Ordering::SeqCst) {
                            let mut h = hung.lock().unwrap();
                            if h.map(|x| idx < x).unwrap_or(true) {
                                *h = Some(idx);
                            }
                            stop_at.fetch_min(idx, Ordering::SeqCst);
                        }
                    }
                }
                continue;
            }
            all = false;
            let (t, i) = *last.lock().unwrap();
            if t.elapsed() > stall_limit {
                let _ = child.lock().unwrap().kill();
                let mut h = hung.lock().unwrap();
                let idx = if i == u64::MAX { w as u64 } else { i };
                if h.map(|x| idx < x).unwrap_or(true) {
                    *h = Some(idx);
                }
                stop_at.fetch_min(idx, Ordering::SeqCst);
            } else if i != u64::MAX && i > stop_at.load(Ordering::SeqCst) {
                let _ = child.lock().unwrap().kill();
            }
        }
        if all {
            break;
        }
        std::thread::sleep(Duration::from_millis(5));
    }
    let mut stats = Stats::default();
    let mut total = 0;
    let mut violation: Option<(u64, Violation, Value)> = None;
    for (w, (child, reader, _, outfile)) in handles.into_iter().enumerate() {
        let _ = child.lock().unwrap().wait();
        let _ = reader.join();
        if let Some(wf) = results[w].take() {
            total += wf.runs;
            let mut s = Stats {
                counters: wf.counters,
                notes: wf.notes.into_iter().collect(),
                samples: wf.samples,
                ..Default::default()
            };
            for (k, path) in wf.bitmaps {
                if let Ok(b) = std::fs::read(&path) {
                    s.distinct.insert(k, Bitmap::from_bytes(&b));
                }
                let _ = std::fs::remove_file(&path);
            }
            stats.merge(s);
            if let Some((i, v, sc)) = wf.violation {
                if violation.as_ref().map(|x| i < x.0).unwrap_or(true) {
                    violation = Some((i, v, sc));
                }
            }
        }
        let _ = std::fs::remove_file(&outfile);
    }
    let hung_at = *hung.lock().unwrap();
    BatchOut {
        runs: total,
        stats,
        violation,
        wall: start.elapsed(),
        hung_at,
        worker_errors: worker_errors.into_inner().unwrap(),
        workers: nw as u64,
    }
}

/// Delta-debugs a failing scenario while the same violation class persists.
pub fn minimise<E: Engine>(e: &E, sc: E::Sc, v: Violation, budget: Duration) -> (E::Sc, Violation, u64) {
    minimise_with(e, sc, v, budget, &mut |_, _, _| {})
}

/// `on_step` sees every accepted reduction (so that the best one so far survives a candidate
/// that kills the process)
pub fn minimise_with<E: Engine>(e: &E, sc: E::Sc, v: Violation, budget: Duration, on_step: &mut dyn FnMut(&E::Sc, &Violation, u64)) -> (E::Sc, Violation, u64) {
    let start = Instant::now();
    let mut cur = sc;
    let mut viol = v;
    let mut steps = 0u64;
    let mut dummy = Stats::default();
    'outer: loop {
        if start.elapsed() > budget {
            break;
        }
        for cand in e.shrink(&cur) {
            if start.elapsed() > budget {
                break 'outer;
            }
            if e.size(&cand) >= e.size(&cur) {
                continue;
            }
            if let Some((v2, pinned)) = exec_caught(e, &cand, &mut dummy) {
                if v2.class == viol.class && e.size(&pinned) < e.size(&cur) {
                    cur = pinned;
                    viol = v2;
                    steps += 1;
                    on_step(&cur, &viol, steps);
                    continue 'outer;
                }
            }
        }
        break;
    }
    (cur, viol, steps)
}

#[derive(Serialize, Deserialize)]
pub struct ReplayFile {
    pub property: String,
    /// engine key (names the engine and its configuration)
    pub engine: String,
    pub seed: u64,
    pub run: u64,
    pub violation: Violation,
    pub scenario: Value,
    /// when the failure depends on what the same process executed before (state kept by the
    /// library across calls): re-run the worker's whole index sequence up to `run`
    #[serde(default)]
    pub sequence: Option<Sequence>,
}

#[derive(Clone, Debug, Serialize, Deserialize)]
pub struct Sequence {
    pub tag: String,
    pub tier: String,
    pub offset: u64,
    pub stride: u64,
}

/// Replays run indices offset, offset+stride, ... up to and including `upto` in this process and
/// returns the first violation.
pub fn run_sequence(e: &dyn DynEngine, seq: &Sequence, seed: u64, upto: u64) -> Option<(u64, Violation)> {
    let tier = Tier::parse(&seq.tier).unwrap_or(Tier::Quick);
    let out = e.run_range(&seq.tag, seed, tier, seq.offset, seq.stride, upto + 1, Duration::from_secs(3600), &mut |_| {});
    out.violation.map(|(i, v, _)| (i, v))
}

pub fn write_sequence_replay(prop: &str, engine_key: &str, seed: u64, run: u64, v: &Violation, sc: &Value, seq: Sequence) -> String {
    let dir = format!("{}/replay", verif_root());
    let _ = std::fs::create_dir_all(&dir);
    let path = format!("{dir}/{prop}-{}-{seed}-{run}-sequence.json", engine_key.replace(':', "_"));
    let rf = ReplayFile {
        property: prop.to_string(),
        engine: engine_key.to_string(),
        seed,
        run,
        violation: v.clone(),
        scenario: sc.clone(),
        sequence: Some(seq),
    };
    std::fs::write(&path, serde_json::to_string_pretty(&rf).unwrap()).expect("write replay file");
    path
}

pub fn write_replay(prop: &str, engine_key: &str, seed: u64, run: u64, v: &Violation, sc: &Value) -> String {
    let dir = format!("{}/replay", verif_root());
    let _ = std::fs::create_dir_all(&dir);
    let path = format!("{dir}/{prop}-{}-{seed}-{run}.json", engine_key.replace(':', "_"));
    let rf = ReplayFile {
        property: prop.to_string(),
        engine: engine_key.to_string(),
        seed,
        run,
        violation: v.clone(),
        scenario: sc.clone(),
        sequence: None,
    };
    std::fs::write(&path, serde_json::to_string_pretty(&rf).unwrap()).expect("write replay file");
    path
}

pub struct Evidence<'a> {
    pub property: &'a str,
    pub tier: Tier,
    pub seed: u64,
    pub level: &'a str,
    pub evaluations: u64,
    pub distinct_nontrivial: u64,
    pub rule: &'a str,
    pub samples: Vec<Value>,
    pub extra: Value,
    pub assumptions: Vec<String>,
    pub wall_s: f64,
    pub violations: u64,
}

pub fn write_evidence(ev: &Evidence) {
    let dir = format!("{}/evidence", verif_root());
    let _ = std::fs::create_dir_all(&dir);
    let mut coverage = json!({
        "evaluations": ev.evaluations,
        "distinct_nontrivial": ev.distinct_nontrivial,
        "rule": ev.rule,
        "samples": ev.samples,
    });
    if let (Some(c), Some(x)) = (coverage.as_object_mut(), ev.extra.as_object()) {
        for (k, v) in x {
            c.insert(k.clone(), v.clone());
        }
    }
    let doc = json!({
        "property_id": ev.property,
        "tier": ev.tier.as_str(),
        "seed": ev.seed,
        "level": ev.level,
        "coverage": coverage,
        "assumptions": ev.assumptions,
        "wall_s": ev.wall_s,
        "violations": ev.violations,
    });
    let path = format!("{dir}/{}.json", ev.property);
    std::fs::write(&path, serde_json::to_string_pretty(&doc).unwrap()).expect("write evidence");
}

pub fn stats_json(s: &Stats) -> Value {
    let mut counters = serde_json::Map::new();
    for (k, v) in &s.counters {
        counters.insert(k.clone(), json!(v));
    }
    let mut distinct = serde_json::Map::new();
    for (k, v) in &s.distinct {
        distinct.insert(k.clone(), json!(v.count()));
    }
    json!({"counters": counters, "distinct_lower_bounds": distinct, "notes": s.notes})
}

/// development aid: restrict generation to one flavour (never set by the registered checks)
pub fn only_flavour() -> Option<String> {
    std::env::var("GSIM_ONLY_FLAVOUR").ok()
}
