pub mod check;
pub mod engines;
pub mod flavour;
pub mod gen;
pub mod hashseam;
pub mod keys;
pub mod locks;
pub mod model;
pub mod payload;
pub mod rng;
pub mod runner;
pub mod selftest;
pub mod streams;
pub mod world;

use runner::Tier;

fn usage() -> ! {
    eprintln!("usage: gsim check <ID> [--tier quick|thorough] [--seed N]\n       gsim replay <file> [--quiet]");
    std::process::exit(2)
}

fn main() {
    hashseam::init();
    locks::install_panic_hook();
    let args: Vec<String> = std::env::args().collect();
    if args.len() < 2 {
        usage();
    }
    if args[1] == "logrun" {
        // gsim logrun <engine-key> <tag> <seed> <tier> <from> <to>: one line per run (event-log digest)
        let Some(e) = check::engine_by_key(&args[2]) else { usage() };
        let seed: u64 = args[4].parse().unwrap();
        let tier = Tier::parse(&args[5]).unwrap();
        let (from, to): (u64, u64) = (args[6].parse().unwrap(), args[7].parse().unwrap());
        for i in from..to {
            println!("{}", e.log_run(&args[3], seed, tier, i));
        }
        std::process::exit(0);
    }
    if args[1] == "selftest-determinism" {
        std::process::exit(selftest::determinism());
    }
    if args[1] == "selftest-watchdog" {
        std::process::exit(selftest::watchdog());
    }
    if args[1] == "minimise" {
        // gsim minimise <replay-file> <budget-s>
        std::process::exit(check::minimise_file(&args[2], args[3].parse().unwrap_or(40)));
    }
    if args[1] == "worker" {
        // gsim worker <engine-key> <tag> <seed> <tier> <offset> <stride> <runs> <cap_s> <outfile>
        let Some(e) = check::engine_by_key(&args[2]) else { usage() };
        std::process::exit(runner::worker_main(e.as_ref(), &args[3..]));
    }
    if args.len() < 3 {
        usage();
    }
    let mut tier = match std::env::var("VERIF_TIER").as_deref() {
        Ok("thorough") => Tier::Thorough,
        _ => Tier::Quick,
    };
    let mut seed: u64 = std::env::var("VERIF_SEED").ok().and_then(|s| s.parse().ok()).unwrap_or(20261004);
    let mut quiet = false;
    let mut i = 3;
    while i < args.len() {
        match args[i].as_str() {
            "--tier" => {
                i += 1;
                tier = match args.get(i).map(|s| s.as_str()) {
                    Some("thorough") => Tier::Thorough,
                    Some("quick") => Tier::Quick,
                    _ => usage(),
                };
            }
            "--seed" => {
                i += 1;
                seed = args.get(i).and_then(|s| s.parse().ok()).unwrap_or_else(|| usage());
            }
            "--quiet" => quiet = true,
            _ => usage(),
        }
        i += 1;
    }
    // First line of every log: the one integer that decides everything.
    if !quiet {
        eprintln!("VERIF_SEED={seed} tier={} workers={}", tier.as_str(), runner::workers());
    }
    if tier == Tier::Thorough && std::env::var("GSIM_SKETCH_LOG2").is_err() {
        // inherited by the worker processes
        std::env::set_var("GSIM_SKETCH_LOG2", "27");
    }
    let code = match args[1].as_str() {
        "check" => check::check(&args[2], tier, seed),
        "replay" => check::replay(&args[2], quiet),
        _ => usage(),
    };
    std::process::exit(code);
}
