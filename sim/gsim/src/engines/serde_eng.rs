//! C12 (round trip under simulated container orders and stream behaviour) and
//! C13 (fault enumeration over stored documents).

use crate::flavour::{Flavour, Wire};
use crate::gen;
use crate::locks::{caught, Caught, Solo};
use crate::payload::{EVal, NVal};
use crate::rng::Rng;
use crate::runner::{Engine, Stats, Tier, Violation};
use crate::streams::{SimReader, SimWriter, StreamPlan};
use crate::world::World;
use crate::{hashseam, with_flavour};
use serde::{Deserialize, Serialize};
use serde_json::Value;
use std::collections::BTreeMap;

pub type PlainDoc = (Vec<(usize, (u32, u64))>, Vec<(usize, usize, u64)>);

fn build<F: Flavour>(prios: &[u32], edges: &[(usize, usize, u64)], order: &[usize]) -> (Vec<F::Node>, F::Graph) {
    let nodes: Vec<F::Node> = prios
        .iter()
        .enumerate()
        .map(|(k, p)| F::node_new(k, NVal::new(*p, 1000 + k as u64)))
        .collect();
    for (u, v, e) in edges {
        F::connect(&nodes[*u], &nodes[*v], EVal::new(*e));
    }
    let mut g = F::g_new();
    for k in order {
        F::g_insert(&mut g, nodes[*k].clone());
    }
    (nodes, g)
}

/// canonical description of a container: key -> (prio, id, out-list or adjacency multiset)
type Canon = BTreeMap<usize, (u32, u64, Vec<(usize, u64)>)>;

fn canon<F: Flavour>(g: &F::Graph) -> Canon {
    let mut m = BTreeMap::new();
    for (k, n) in F::g_iter(g) {
        let (mut out, _) = World::<F>::lists_of(&n);
        if !F::DIRECTED {
            out.sort();
        }
        m.insert(k, (F::prio(&n), F::vid(&n), out));
    }
    m
}

// ---------------------------------------------------------------------------
// C12

#[derive(Clone, Debug, Serialize, Deserialize)]
pub struct RtSc {
    pub flavour: String,
    pub prios: Vec<u32>,
    pub edges: Vec<(usize, usize, u64)>,
    pub insert_order: Vec<usize>,
    pub wire: Wire,
    pub ser_hash: u64,
    pub de_hash: u64,
    pub via_stream: bool,
    pub wplan: StreamPlan,
    pub rplan: StreamPlan,
    /// edge operations applied after the graph was built and before it is serialised: the
    /// property quantifies over every graph a history can produce, not only freshly connected ones
    #[serde(default)]
    pub after: Vec<crate::model::Op>,
    /// edge operations applied to the same graph after its first serialisation; it is then
    /// serialised a second time (the second and later uses of one container object)
    #[serde(default)]
    pub then: Vec<crate::model::Op>,
    /// container calls made after the graph was built and before anything else: (kind, key) with
    /// kind 0 = remove the member and insert the same node again, 1 = insert a member a second
    /// time (refused), 2 = remove a key that is not there, 3 = kind 0 twice, 4 = replace an
    /// edgeless member by a NEW node object under the same key, which then gets an edge
    #[serde(default)]
    pub churn: Vec<(u8, usize)>,
}

pub struct RoundTrip;

fn plain_of(c: &Canon, directed: bool) -> PlainDoc {
    let nodes = c.iter().map(|(k, (p, i, _))| (*k, (*p, *i))).collect();
    let mut edges = Vec::new();
    for (k, (_, _, out)) in c {
        for (v, e) in out {
            if directed || k <= v {
                edges.push((*k, *v, *e));
            }
        }
    }
    (nodes, edges)
}

fn plain_ser(doc: &PlainDoc, wire: Wire, w: &mut SimWriter) -> bool {
    if wire.is_cbor() {
        serde_cbor::to_writer(w, doc).is_ok()
    } else {
        serde_json::to_writer(w, doc).is_ok()
    }
}

fn plain_de(bytes: &[u8], wire: Wire, plan: &StreamPlan) -> bool {
    let mut r = SimReader::new(bytes.to_vec(), plan.clone());
    if wire.is_cbor() {
        serde_cbor::from_reader::<PlainDoc, _>(&mut r).is_ok()
    } else {
        serde_json::from_reader::<_, PlainDoc>(&mut r).is_ok()
    }
}

fn rt_run<F: Flavour>(sc: &RtSc, stats: &mut Stats) -> Option<Violation> {
    let solo = Solo::new();
    if F::SYNC {
        solo.install();
    }
    let r = match caught(|| rt_inner::<F>(sc, stats)) {
        Caught::Ok(r) => r,
        Caught::Panic(m) => Some(Violation::new("panic", format!("serialisation round trip panicked: {m}"))),
        Caught::Abort(m) => Some(Violation::new("deadlock", format!("serialisation round trip cannot return: {m}"))),
    };
    if F::SYNC {
        Solo::uninstall();
    }
    r
}

fn rt_inner<F: Flavour>(sc: &RtSc, stats: &mut Stats) -> Option<Violation> {
    crate::keys::set_style(crate::keys::style_from(sc.ser_hash));
    hashseam::set_seed(sc.ser_hash);
    let (mut nodes, mut g) = build::<F>(&sc.prios, &sc.edges, &sc.insert_order);
    if sc.edges.len() >= 2_731 {
        stats.inc("bulk_graphs_of_2731_or_more_edges");
    }
    for (kind, k) in &sc.churn {
        let k = *k;
        if k >= nodes.len() {
            continue;
        }
        stats.inc("container_calls_before_serialising");
        match kind % 5 {
            0 | 3 => {
                for _ in 0..(if kind % 5 == 3 { 2 } else { 1 }) {
                    if let Some(n) = F::g_remove(&mut g, k) {
                        F::g_insert(&mut g, n);
                    }
                }
            }
            1 => {
                let _ = F::g_insert(&mut g, nodes[k].clone());
            }
            2 => {
                let _ = F::g_remove(&mut g, gen::NO_SUCH_KEY);
            }
            _ => {
                if F::out_degree(&nodes[k]) + F::in_degree(&nodes[k]) == 0 && F::g_contains(&g, k) {
                    let _ = F::g_remove(&mut g, k);
                    let fresh = F::node_new(k, NVal::new(sc.prios[k] + 1, 3000 + k as u64));
                    F::g_insert(&mut g, fresh.clone());
                    let other = (k + 1) % nodes.len();
                    // (the node that was replaced is about to go: never a neighbour)
                    let target = if other == k { fresh.clone() } else { nodes[other].clone() };
                    F::connect(&fresh, &target, EVal::new(30_000 + k as u64));
                    nodes[k] = fresh;
                    stats.inc("member_replaced_by_a_new_node_under_its_key");
                }
            }
        }
    }
    let w = World::<F> { nodes, graph: None };
    if !sc.after.is_empty() {
        for op in &sc.after {
            if w.exec(op).is_failure() {
                stats.note(format!("an edge operation failed while preparing the graph (decided under C03): {op:?}"));
                return None;
            }
        }
        stats.inc("graphs_shaped_by_removals_before_serialising");
    }
    let src = canon::<F>(&g);
    let ser_order: Vec<usize> = F::g_iter(&g).iter().map(|x| x.0).collect();
    let direct = match F::g_ser(&g, sc.wire) {
        Ok(b) => b,
        Err(e) => return Some(Violation::new("ser-failed", format!("serialising to memory failed: {e}"))),
    };
    stats.add("stream_bytes", direct.len() as u64);
    let bytes = if sc.via_stream {
        let mut w = SimWriter::new(sc.wplan.clone());
        let r = F::g_ser_writer(&g, sc.wire, &mut w);
        stats.add("fault_short_write", w.fired.short);
        stats.add("fault_write_interrupted", w.fired.interrupted);
        stats.add("fault_write_io_error", w.fired.io_error);
        stats.add("fault_write_zero", w.fired.stop);
        let hard_fired = w.fired.io_error + w.fired.stop > 0;
        match r {
            Err(e) => {
                if hard_fired {
                    stats.inc("hard_write_fault_reported_as_err");
                    return None;
                }
                // benign behaviour only: does the wire library cope with it at all?
                let mut w2 = SimWriter::new(sc.wplan.clone());
                if !plain_ser(&plain_of(&src, F::DIRECTED), sc.wire, &mut w2) {
                    stats.inc("dependency_cannot_write_through_benign_stream");
                    return None;
                }
                return Some(Violation::new(
                    "ser-failed",
                    format!("serialising through a stream with only short writes/EINTR ({:?}) failed: {e}", sc.wplan),
                ));
            }
            Ok(()) => {
                if hard_fired {
                    return Some(Violation::new(
                        "error-swallowed",
                        format!("the writer failed ({:?}) but serialisation returned Ok", sc.wplan),
                    ));
                }
                // (two serialisations of one graph need not be byte-identical: only the round
                // trip is the property; what was written through the stream is what gets read back)
                if w.buf != direct {
                    stats.inc("stream_bytes_differ_from_in_memory_bytes");
                }
                w.buf
            }
        }
    } else {
        direct
    };
    hashseam::set_seed(sc.de_hash);
    let res = if sc.via_stream {
        let mut r = SimReader::new(bytes.clone(), sc.rplan.clone());
        let res = F::g_de_reader(&mut r, sc.wire);
        stats.add("fault_short_read", r.fired.short);
        stats.add("fault_read_interrupted", r.fired.interrupted);
        stats.add("fault_read_io_error", r.fired.io_error);
        stats.add("fault_read_truncated", r.fired.stop);
        let hard_fired = r.fired.io_error + r.fired.stop > 0;
        match res {
            Err(e) => {
                if hard_fired {
                    stats.inc("hard_read_fault_reported_as_err");
                    return None;
                }
                if !plain_de(&bytes, sc.wire, &sc.rplan) {
                    stats.inc("dependency_cannot_read_through_benign_stream");
                    return None;
                }
                return Some(Violation::new(
                    "de-failed",
                    format!("deserialising its own output through a stream with only short reads/EINTR ({:?}) failed: {e}", sc.rplan),
                ));
            }
            Ok(g2) => {
                if hard_fired {
                    stats.inc("hard_read_fault_but_ok_checked_for_equality");
                }
                Ok(g2)
            }
        }
    } else {
        F::g_de(&bytes, sc.wire)
    };
    let g2 = match res {
        Ok(g2) => g2,
        Err(e) => return Some(Violation::new("de-failed", format!("deserialising its own output failed: {e}"))),
    };
    let de_order: Vec<usize> = F::g_iter(&g2).iter().map(|x| x.0).collect();
    if ser_order != de_order {
        stats.inc("probe_container_order_differs_between_sides");
    }
    stats.mark(
        "graph_wire_orders",
        crate::rng::fnv(serde_json::to_string(&(&sc.flavour, sc.wire, &sc.edges, &ser_order, &de_order)).unwrap().as_bytes()),
    );
    let dst = canon::<F>(&g2);
    if src != dst {
        let diff: Vec<String> = src
            .iter()
            .filter(|(k, v)| dst.get(k) != Some(v))
            .take(3)
            .map(|(k, v)| format!("node {k}: before {:?}, after {:?}", v, dst.get(k)))
            .collect();
        return Some(Violation::new(
            "round-trip-mismatch",
            format!(
                "{} {:?}: {} nodes before, {} after; {}",
                sc.flavour,
                sc.wire,
                src.len(),
                dst.len(),
                diff.join("; ")
            ),
        ));
    }
    // the copy is a well-formed graph of its own
    let mut nodes2: Vec<(usize, F::Node)> = F::g_iter(&g2);
    nodes2.sort_by_key(|x| x.0);
    let w2 = World::<F> {
        nodes: nodes2.into_iter().map(|x| x.1).collect(),
        graph: None,
    };
    if let Err(m) = w2.check_invariant() {
        return Some(Violation::new("round-trip-mismatch", format!("the deserialised graph is malformed: {m}")));
    }
    // the same bytes read a second time give a second, separate copy; the first stays as it was
    match F::g_de(&bytes, sc.wire) {
        Ok(g2b) => {
            stats.inc("documents_deserialised_twice");
            let (a, b) = (canon::<F>(&g2b), canon::<F>(&g2));
            if a != src || b != src {
                return Some(Violation::new(
                    "round-trip-mismatch",
                    format!(
                        "{} {:?}: deserialising the same bytes a second time: second copy {}, first copy afterwards {}",
                        sc.flavour,
                        sc.wire,
                        if a == src { "equal to the source".to_string() } else { format!("{a:?}") },
                        if b == src { "equal to the source".to_string() } else { format!("{b:?}") }
                    ),
                ));
            }
            // changing the second copy leaves the first alone
            if let Some((_, n)) = F::g_iter(&g2b).into_iter().next() {
                F::isolate(&n);
                if canon::<F>(&g2) != src {
                    return Some(Violation::new(
                        "round-trip-mismatch",
                        format!("{} {:?}: two copies deserialised from the same bytes share state: isolating a node of one changed the other", sc.flavour, sc.wire),
                    ));
                }
            }
        }
        Err(e) => return Some(Violation::new("de-failed", format!("deserialising the same bytes a second time failed: {e}"))),
    }
    // in-place deserialisation (serde's `deserialize_in_place`: reload into an existing object):
    // into a fresh container, into a container that already holds this very graph, and into one
    // that holds something else - afterwards each holds the document's graph, no more, no less
    if sc.de_hash % 8 == 0 {
        stats.inc("documents_deserialised_in_place");
        let mut fresh = F::g_new();
        let mut same = match F::g_de(&bytes, sc.wire) {
            Ok(g) => g,
            Err(e) => return Some(Violation::new("de-failed", format!("deserialising the same bytes a third time failed: {e}"))),
        };
        let mut other = F::g_new();
        let stranger = F::node_new(gen::NO_SUCH_KEY - 1, NVal::new(0, 7777));
        F::connect(&stranger, &stranger, EVal::new(7778));
        F::g_insert(&mut other, stranger.clone());
        for (what, place) in [("an empty container", &mut fresh), ("a container already holding this graph", &mut same), ("a container holding another graph", &mut other)] {
            if let Err(e) = F::g_de_in_place(place, &bytes, sc.wire) {
                return Some(Violation::new("de-failed", format!("deserialising in place into {what} failed: {e}")));
            }
            let got = canon::<F>(place);
            if got != src {
                let diff: Vec<String> = got.iter().filter(|(k, v)| src.get(k) != Some(v)).take(3).map(|(k, v)| format!("node {k}: {v:?}, source {:?}", src.get(k))).collect();
                return Some(Violation::new(
                    "round-trip-mismatch",
                    format!("{} {:?}: deserialising in place into {what}: {} nodes, source {}; {}", sc.flavour, sc.wire, got.len(), src.len(), diff.join("; ")),
                ));
            }
        }
    }
    // the copy is a graph like any other: it round-trips again to the same graph
    let again = F::g_ser(&g2, sc.wire).and_then(|b| F::g_de(&b, sc.wire));
    match again {
        Ok(g3) => {
            let third = canon::<F>(&g3);
            if third != src {
                return Some(Violation::new(
                    "round-trip-mismatch",
                    format!("{} {:?}: the copy does not round-trip to the same graph again ({} nodes, then {})", sc.flavour, sc.wire, src.len(), third.len()),
                ));
            }
        }
        Err(e) => return Some(Violation::new("de-failed", format!("serialising and deserialising the copy failed: {e}"))),
    }
    // the same container object, changed through its nodes and serialised again
    if !sc.then.is_empty() {
        for op in &sc.then {
            if w.exec(op).is_failure() {
                stats.note(format!("an edge operation failed while changing the graph (decided under C03): {op:?}"));
                return None;
            }
        }
        stats.inc("graphs_serialised_again_after_changes");
        let src2 = canon::<F>(&g);
        if src2 == src {
            stats.inc("graphs_serialised_again_unchanged");
        }
        match F::g_ser(&g, sc.wire).and_then(|b| F::g_de(&b, sc.wire)) {
            Ok(g4) => {
                let dst2 = canon::<F>(&g4);
                if dst2 != src2 {
                    let diff: Vec<String> = src2
                        .iter()
                        .filter(|(k, v)| dst2.get(k) != Some(v))
                        .take(3)
                        .map(|(k, v)| format!("node {k}: graph {:?}, copy {:?}", v, dst2.get(k)))
                        .collect();
                    return Some(Violation::new(
                        "round-trip-mismatch",
                        format!(
                            "{} {:?}: second serialisation of the same container after {:?}: {}",
                            sc.flavour,
                            sc.wire,
                            sc.then,
                            diff.join("; ")
                        ),
                    ));
                }
            }
            Err(e) => return Some(Violation::new("de-failed", format!("second serialisation of the same container failed: {e}"))),
        }
    }
    // other payload types: String keys, () node and edge values (parallel edges indistinguishable)
    let pairs: Vec<(usize, usize)> = sc.edges.iter().map(|(u, v, _)| (*u, *v)).collect();
    match F::alt_round_trip(sc.prios.len(), &pairs, sc.wire, (sc.ser_hash % 12) as u8) {
        Ok((before, after)) => {
            stats.inc("alt_type_round_trips");
            if before != after {
                return Some(Violation::new(
                    "round-trip-mismatch",
                    format!("{} {:?} instantiated with other key and payload types (String keys and () values; String keys, Option<String> nodes, [u8; 0] edges; two-field keys, nested node values, u64 edges near the maximum): before {before}, after {after}", sc.flavour, sc.wire),
                ));
            }
        }
        Err(e) => {
            return Some(Violation::new(
                "de-failed",
                format!("{} {:?}: round trip of the same graph instantiated with other key and payload types failed: {e}", sc.flavour, sc.wire),
            ))
        }
    }
    None
}

pub fn gen_graph(rng: &mut Rng, small: bool, max_n: usize) -> (Vec<u32>, Vec<(usize, usize, u64)>) {
    if rng.chance(1, 150) {
        // the empty container
        return (Vec::new(), Vec::new());
    }
    let n = if small { rng.range(1, 3) } else { rng.range(4, max_n) };
    let prios: Vec<u32> = (0..n).map(|_| rng.below(5) as u32).collect();
    let m = if small { rng.below(6) } else { rng.below(3 * n) };
    let mut edges = Vec::new();
    let mut next = 100u64;
    if rng.chance(1, 5) {
        // a hub: one node with a long run of edges (self-loops and both directions included)
        let hub = rng.below(n);
        for _ in 0..rng.range(6, 40) {
            next += 1;
            let other = rng.below(n);
            match rng.below(6) {
                0 => edges.push((hub, hub, next)),
                1 | 2 => edges.push((other, hub, next)),
                _ => edges.push((hub, other, next)),
            }
        }
    }
    for _ in 0..m {
        next += 1;
        let r = rng.below(10);
        let (u, v) = if r < 2 {
            let u = rng.below(n);
            (u, u)
        } else if r < 5 && !edges.is_empty() {
            let (a, b, _): (usize, usize, u64) = edges[rng.below(edges.len())];
            if rng.coin() {
                (a, b)
            } else {
                (b, a)
            }
        } else {
            (rng.below(n), rng.below(n))
        };
        edges.push((u, v, next));
    }
    if rng.chance(1, 4) {
        // parallel edges that carry the SAME value (indistinguishable, like `()` payloads):
        // nothing may be merged or deduplicated
        for _ in 0..rng.range(1, 4) {
            if edges.is_empty() {
                break;
            }
            let (u, v, e) = edges[rng.below(edges.len())];
            if rng.chance(1, 3) {
                edges.push((v, u, e));
            } else {
                edges.push((u, v, e));
            }
        }
    }
    (prios, edges)
}

pub fn gen_benign_plan(rng: &mut Rng) -> StreamPlan {
    let mut p = StreamPlan::default();
    if rng.chance(3, 4) {
        let k = rng.range(1, 4);
        p.chunks = (0..k).map(|_| *rng.pick(&[1usize, 1, 2, 3, 7, 16, 64])).collect();
    }
    if rng.chance(1, 3) {
        p.interrupt_every = Some(rng.range(2, 9) as u32);
    }
    p
}

impl Engine for RoundTrip {
    type Sc = RtSc;

    fn name(&self) -> &'static str {
        "roundtrip"
    }

    fn generate(&self, rng: &mut Rng, tier: Tier) -> RtSc {
        let mut flavour = crate::flavour::FLAVOURS[rng.below(4)].to_string();
        if let Some(f) = crate::runner::only_flavour() {
            flavour = f;
        }
        let small = rng.chance(50, 100);
        let (mut prios, mut edges) = gen_graph(rng, small, if tier == Tier::Quick { 24 } else { 40 });
        // bulk graphs (one run in 5000): 2 700 - 9 000 edges over 30 - 300 nodes. Whatever a
        // serialiser or deserialiser does differently for long edge lists - batches, chunks,
        // buffers of a fixed byte size, another sort - must still round-trip, in every wire format.
        if rng.chance(1, 5000) {
            let n = rng.range(30, 300);
            prios = (0..n).map(|_| rng.below(5) as u32).collect();
            edges.clear();
            let m = *rng.pick(&[2_731usize, 2_800, 4_097, 4_200, 5_500, 8_200]) + rng.below(800);
            for i in 0..m {
                let u = rng.below(n);
                let v = if rng.chance(1, 20) { u } else { rng.below(n) };
                edges.push((u, v, 100 + i as u64));
            }
        }
        let mut insert_order: Vec<usize> = (0..prios.len()).collect();
        rng.shuffle(&mut insert_order);
        let wire = *rng.pick(&[Wire::Json, Wire::Json, Wire::Cbor, Wire::Cbor, Wire::Cbor, Wire::JsonValue, Wire::JsonStr]);
        let mode = rng.below(10);
        let via_stream = mode >= 3;
        let (mut wplan, mut rplan) = (StreamPlan::default(), StreamPlan::default());
        if via_stream {
            wplan = gen_benign_plan(rng);
            rplan = gen_benign_plan(rng);
            // hard faults in a separate configuration
            if mode == 8 {
                if rng.coin() {
                    wplan.fail_at = Some(rng.below(200));
                } else {
                    wplan.stop_at = Some(rng.below(200));
                }
            } else if mode == 9 {
                if rng.coin() {
                    rplan.fail_at = Some(rng.below(200));
                } else {
                    rplan.stop_at = Some(rng.below(200));
                }
            }
        }
        let mut after = Vec::new();
        if !edges.is_empty() && rng.chance(1, 3) {
            let mut next = 10_000u64;
            for _ in 0..rng.range(1, 6) {
                let (u, v, _) = edges[rng.below(edges.len())];
                let h = crate::model::Prov::Own;
                after.push(match rng.below(10) {
                    0..=4 => {
                        if rng.coin() {
                            crate::model::Op::Disconnect { u, k: v, h }
                        } else {
                            crate::model::Op::Disconnect { u: v, k: u, h }
                        }
                    }
                    5 => crate::model::Op::Isolate { u, h },
                    6 | 7 => {
                        next += 1;
                        crate::model::Op::Connect { u: v, v: u, e: next, h }
                    }
                    _ => {
                        next += 1;
                        crate::model::Op::TryConnect { u, v: rng.below(prios.len()), e: next, h }
                    }
                });
            }
        }
        // changes between two serialisations of the same container: mostly pairs that keep the
        // number of nodes and edges (move, reverse or re-value an edge), sometimes anything
        let mut then = Vec::new();
        if !edges.is_empty() && after.is_empty() && rng.chance(1, 4) {
            let mut next = 20_000u64;
            let h = crate::model::Prov::Own;
            for _ in 0..rng.range(1, 3) {
                let (u, v, _) = edges[rng.below(edges.len())];
                next += 1;
                match rng.below(8) {
                    0..=2 => {
                        // move
                        then.push(crate::model::Op::Disconnect { u, k: v, h });
                        then.push(crate::model::Op::Connect { u: rng.below(prios.len()), v: rng.below(prios.len()), e: next, h });
                    }
                    3 | 4 => {
                        // reverse
                        then.push(crate::model::Op::Disconnect { u, k: v, h });
                        then.push(crate::model::Op::Connect { u: v, v: u, e: next, h });
                    }
                    5 => {
                        // new value
                        then.push(crate::model::Op::Disconnect { u, k: v, h });
                        then.push(crate::model::Op::Connect { u, v, e: next, h });
                    }
                    6 => then.push(crate::model::Op::Connect { u: v, v: rng.below(prios.len()), e: next, h }),
                    _ => then.push(crate::model::Op::Isolate { u, h }),
                }
            }
        }
        let mut churn = Vec::new();
        if rng.chance(1, 5) {
            for _ in 0..rng.range(1, 3) {
                churn.push((rng.below(5) as u8, rng.below(prios.len().max(1))));
            }
        }
        RtSc {
            churn,
            flavour,
            prios,
            edges,
            insert_order,
            wire,
            ser_hash: rng.next_u64(),
            de_hash: rng.next_u64(),
            via_stream,
            wplan,
            rplan,
            after,
            then,
        }
    }

    fn execute(&self, sc: &RtSc, stats: &mut Stats) -> Option<(Violation, RtSc)> {
        stats.inc(&format!("runs_{}_{:?}", sc.flavour, sc.wire).to_lowercase());
        if sc.via_stream {
            if sc.wplan.is_hard() || sc.rplan.is_hard() {
                stats.inc("config_hard_stream_faults");
            } else {
                stats.inc("config_benign_stream");
            }
        } else {
            stats.inc("config_in_memory");
        }
        let r = with_flavour!(sc.flavour.as_str(), F, rt_run::<F>(sc, stats));
        r.map(|v| (v, sc.clone()))
    }

    fn shrink(&self, sc: &RtSc) -> Vec<RtSc> {
        let mut out = Vec::new();
        if sc.via_stream {
            let mut c = sc.clone();
            c.via_stream = false;
            c.wplan = StreamPlan::default();
            c.rplan = StreamPlan::default();
            out.push(c);
            if !sc.wplan.is_clean() {
                let mut c = sc.clone();
                c.wplan = StreamPlan::default();
                out.push(c);
            }
            if !sc.rplan.is_clean() {
                let mut c = sc.clone();
                c.rplan = StreamPlan::default();
                out.push(c);
            }
        }
        for a in gen::shrink_vec(&sc.after, 20) {
            let mut c = sc.clone();
            c.after = a;
            out.push(c);
        }
        for a in gen::shrink_vec(&sc.then, 20) {
            let mut c = sc.clone();
            c.then = a;
            out.push(c);
        }
        for a in gen::shrink_vec(&sc.churn, 10) {
            let mut c = sc.clone();
            c.churn = a;
            out.push(c);
        }
        for k in (0..sc.prios.len()).rev() {
            if sc.prios.len() > 1 && !sc.churn.iter().any(|(_, x)| *x >= k) {
                if let (Some(edges), Some(after), Some(then)) = (gen::remap_edges(&sc.edges, k), gen::remap_ops(&sc.after, k), gen::remap_ops(&sc.then, k)) {
                    let mut c = sc.clone();
                    c.prios.remove(k);
                    c.edges = edges;
                    c.after = after;
                    c.then = then;
                    c.insert_order.retain(|x| *x != k);
                    for x in c.insert_order.iter_mut() {
                        if *x > k {
                            *x -= 1;
                        }
                    }
                    out.push(c);
                }
            }
        }
        for e in gen::shrink_vec(&sc.edges, 100) {
            let mut c = sc.clone();
            c.edges = e;
            out.push(c);
        }
        out
    }

    fn size(&self, sc: &RtSc) -> usize {
        let plan = |p: &StreamPlan| p.chunks.len() + p.interrupt_every.is_some() as usize + p.is_hard() as usize * 2;
        sc.edges.len() * 4 + sc.prios.len() * 2 + sc.via_stream as usize * 3 + plan(&sc.wplan) + plan(&sc.rplan) + sc.after.len() * 4 + sc.then.len() * 4 + sc.churn.len() * 3
    }
}

// ---------------------------------------------------------------------------
// C13

#[derive(Clone, Debug, Serialize, Deserialize, PartialEq)]
pub enum Mutation {
    None,
    Truncate(usize),
    DropNode(usize),
    DupNode(usize),
    /// second declaration of an existing key with another value
    RedeclareNode(usize),
    DropEdge(usize),
    DupEdge(usize),
    /// end 0 = source, 1 = target
    Retarget { edge: usize, end: usize, key: usize },
    RetypeNodeKey(usize),
    RetypeEdgeValue(usize),
    ShortenEdge(usize),
    ShortenNode(usize),
    DropEdgeList,
    DropBoth,
    ExtraElement,
    NodesNotAList,
    EdgesNotAList,
    TopLevelMap,
    BitFlip { byte: usize, bit: u8 },
    ByteDrop(usize),
    ByteDup(usize),
    ByteSet { at: usize, val: u8 },
    /// two structural mutations, one after the other
    Both(Box<Mutation>, Box<Mutation>),
}

#[derive(Clone, Debug, Serialize, Deserialize)]
pub struct UtSc {
    pub flavour: String,
    pub wire: Wire,
    pub prios: Vec<u32>,
    pub edges: Vec<(usize, usize, u64)>,
    pub hash_seed: u64,
    pub mutations: Vec<Mutation>,
    /// reader behaviour the mutated document is delivered through (None = from memory)
    pub rplan: Option<StreamPlan>,
}

pub struct Untrusted;

fn base_value(prios: &[u32], edges: &[(usize, usize, u64)]) -> Value {
    let nodes: Vec<Value> = prios
        .iter()
        .enumerate()
        .map(|(k, p)| serde_json::json!([k, [p, 1000 + k as u64]]))
        .collect();
    let es: Vec<Value> = edges.iter().map(|(u, v, e)| serde_json::json!([u, v, e])).collect();
    serde_json::json!([nodes, es])
}

fn encode(v: &Value, wire: Wire) -> Vec<u8> {
    if wire.is_cbor() {
        serde_cbor::to_vec(v).unwrap()
    } else {
        serde_json::to_vec(v).unwrap()
    }
}

/// Applies a structural mutation to the document tree. Returns None when the
/// mutation does not apply (index out of range).
fn mutate_value(v: &Value, m: &Mutation) -> Option<Value> {
    mutate_value_keyed(v, m, None)
}

/// `alt`: the document has `String` keys of the given style and `()` values
fn mutate_value_keyed(v: &Value, m: &Mutation, alt: Option<u8>) -> Option<Value> {
    if let Mutation::Both(a, b) = m {
        let x = mutate_value_keyed(v, a, alt)?;
        return mutate_value_keyed(&x, b, alt);
    }
    let mut v = v.clone();
    {
        let top = v.as_array_mut()?;
        match m {
            Mutation::DropNode(i) => {
                let a = top.get_mut(0)?.as_array_mut()?;
                if *i >= a.len() {
                    return None;
                }
                a.remove(*i);
            }
            Mutation::DupNode(i) => {
                let a = top.get_mut(0)?.as_array_mut()?;
                let x = a.get(*i)?.clone();
                a.push(x);
            }
            Mutation::RedeclareNode(i) => {
                let a = top.get_mut(0)?.as_array_mut()?;
                let mut x = a.get(*i)?.clone();
                if alt.is_none() {
                    *x.get_mut(1)? = serde_json::json!([77, 7777]);
                }
                a.push(x);
            }
            Mutation::DropEdge(i) => {
                let a = top.get_mut(1)?.as_array_mut()?;
                if *i >= a.len() {
                    return None;
                }
                a.remove(*i);
            }
            Mutation::DupEdge(i) => {
                let a = top.get_mut(1)?.as_array_mut()?;
                let x = a.get(*i)?.clone();
                a.push(x);
            }
            Mutation::Retarget { edge, end, key } => {
                let a = top.get_mut(1)?.as_array_mut()?;
                let x = a.get_mut(*edge)?;
                *x.get_mut(*end)? = match alt {
                    None => serde_json::json!(key),
                    Some(style) => serde_json::json!(crate::flavour::alt_key(style, *key)),
                };
            }
            Mutation::RetypeNodeKey(i) => {
                let a = top.get_mut(0)?.as_array_mut()?;
                let x = a.get_mut(*i)?;
                *x.get_mut(0)? = if alt.is_none() { serde_json::json!("zero") } else { serde_json::json!(5) };
            }
            Mutation::RetypeEdgeValue(i) => {
                let a = top.get_mut(1)?.as_array_mut()?;
                let x = a.get_mut(*i)?;
                *x.get_mut(2)? = serde_json::json!({"v": 1});
            }
            Mutation::ShortenEdge(i) => {
                let a = top.get_mut(1)?.as_array_mut()?;
                let x = a.get_mut(*i)?.as_array_mut()?;
                x.pop();
            }
            Mutation::ShortenNode(i) => {
                let a = top.get_mut(0)?.as_array_mut()?;
                let x = a.get_mut(*i)?.as_array_mut()?;
                x.pop();
            }
            Mutation::DropEdgeList => {
                top.truncate(1);
            }
            Mutation::DropBoth => {
                top.clear();
            }
            Mutation::ExtraElement => {
                top.push(serde_json::json!([1, 2, 3]));
            }
            Mutation::NodesNotAList => {
                *top.get_mut(0)? = serde_json::json!(5);
            }
            Mutation::EdgesNotAList => {
                *top.get_mut(1)? = serde_json::json!("edges");
            }
            Mutation::TopLevelMap => {
                return Some(serde_json::json!({"nodes": top.first()?.clone(), "edges": top.get(1)?.clone()}));
            }
            _ => return None,
        }
    }
    Some(v)
}

fn mutate_bytes(b: &[u8], m: &Mutation) -> Option<Vec<u8>> {
    let mut b = b.to_vec();
    match m {
        Mutation::Truncate(k) => {
            if *k >= b.len() {
                return None;
            }
            b.truncate(*k);
        }
        Mutation::BitFlip { byte, bit } => {
            *b.get_mut(*byte)? ^= 1 << (bit % 8);
        }
        Mutation::ByteDrop(i) => {
            if *i >= b.len() {
                return None;
            }
            b.remove(*i);
        }
        Mutation::ByteDup(i) => {
            let x = *b.get(*i)?;
            b.insert(*i, x);
        }
        Mutation::ByteSet { at, val } => {
            *b.get_mut(*at)? = *val;
        }
        _ => return None,
    }
    Some(b)
}

/// What a document declares, as far as it can be read as (nodes, edges).
struct Declared {
    nodes: Vec<(usize, (u32, u64))>,
    edges: Vec<(usize, usize, u64)>,
}

fn declared_from_bytes(bytes: &[u8], wire: Wire) -> Option<Declared> {
    let d: Option<PlainDoc> = if wire.is_cbor() { serde_cbor::from_slice(bytes).ok() } else { serde_json::from_slice(bytes).ok() };
    d.map(|(nodes, edges)| Declared { nodes, edges })
}

fn ut_one<F: Flavour>(sc: &UtSc, m: &Mutation, stats: &mut Stats) -> Option<Violation> {
    let base = base_value(&sc.prios, &sc.edges);
    let bytes = match m {
        Mutation::None => encode(&base, sc.wire),
        Mutation::Truncate(_) | Mutation::BitFlip { .. } | Mutation::ByteDrop(_) | Mutation::ByteDup(_) | Mutation::ByteSet { .. } => {
            mutate_bytes(&encode(&base, sc.wire), m)?
        }
        _ => encode(&mutate_value(&base, m)?, sc.wire),
    };
    stats.inc("documents");
    stats.add("stream_bytes", bytes.len() as u64);
    let kind = format!("{m:?}");
    let kind = kind.split(|c: char| !c.is_alphanumeric()).next().unwrap_or("").to_string();
    stats.inc(&format!("fault_doc_{}", kind.to_lowercase()));
    stats.mark("mutated_documents", crate::rng::fnv(&bytes) ^ crate::rng::fnv(sc.flavour.as_bytes()));
    // what the document declares (independent strict parse into plain tuples)
    let declared = match caught(|| declared_from_bytes(&bytes, sc.wire)) {
        Caught::Ok(d) => d,
        _ => {
            stats.inc("dependency_panics_on_plain_tuple_decode");
            return None;
        }
    };
    hashseam::set_seed(sc.hash_seed);
    let res = caught(|| match &sc.rplan {
        None => F::g_de(&bytes, sc.wire),
        Some(p) => {
            let mut r = SimReader::new(bytes.clone(), p.clone());
            F::g_de_reader(&mut r, sc.wire)
        }
    });
    let g = match res {
        Caught::Panic(msg) => {
            return Some(Violation::new(
                "panic",
                format!("deserialising {:?} document mutated by {m:?} panicked: {msg}", sc.wire),
            ))
        }
        Caught::Abort(msg) => {
            return Some(Violation::new("hang", format!("deserialising a document mutated by {m:?} cannot return: {msg}")))
        }
        Caught::Ok(Err(_)) => {
            stats.inc("outcome_err");
            return None;
        }
        Caught::Ok(Ok(g)) => g,
    };
    stats.inc("outcome_ok_graph");
    // a graph came back: it must be well-formed ... (reading it back must not fail either)
    match caught(|| ut_check_graph::<F>(sc, m, &g, declared, stats)) {
        Caught::Ok(r) => r,
        Caught::Panic(msg) | Caught::Abort(msg) => Some(Violation::new(
            "broken-graph",
            format!("document mutated by {m:?} produced a graph that cannot be read back: {msg}"),
        )),
    }
}

fn alt_base_value(n: usize, edges: &[(usize, usize, u64)], style: u8) -> Value {
    let key = |k: usize| crate::flavour::alt_key(style, k);
    let nodes: Vec<Value> = (0..n).map(|k| serde_json::json!([key(k), null])).collect();
    let es: Vec<Value> = edges.iter().map(|(u, v, _)| serde_json::json!([key(*u), key(*v), null])).collect();
    serde_json::json!([nodes, es])
}

type AltDoc = (Vec<(String, ())>, Vec<(String, String, ())>);

/// The same mutation applied to the same graph written with `String` keys and `()` values:
/// key text reaches the library's error paths, and unit payloads make parallel edges equal.
fn ut_one_alt<F: Flavour>(sc: &UtSc, m: &Mutation, stats: &mut Stats) -> Option<Violation> {
    let style = (sc.hash_seed % 4) as u8;
    let base = alt_base_value(sc.prios.len(), &sc.edges, style);
    let bytes = match m {
        Mutation::None => encode(&base, sc.wire),
        Mutation::Truncate(_) | Mutation::BitFlip { .. } | Mutation::ByteDrop(_) | Mutation::ByteDup(_) | Mutation::ByteSet { .. } => {
            mutate_bytes(&encode(&base, sc.wire), m)?
        }
        _ => encode(&mutate_value_keyed(&base, m, Some(style))?, sc.wire),
    };
    stats.inc("documents_with_string_keys");
    stats.mark("mutated_documents", crate::rng::fnv(&bytes) ^ crate::rng::fnv(sc.flavour.as_bytes()) ^ 0x5a5a);
    let declared: Option<AltDoc> = match caught(|| if sc.wire.is_cbor() { serde_cbor::from_slice::<AltDoc>(&bytes).ok() } else { serde_json::from_slice::<AltDoc>(&bytes).ok() }) {
        Caught::Ok(d) => d,
        _ => return None,
    };
    hashseam::set_seed(sc.hash_seed);
    let got = match caught(|| F::alt_de(&bytes, sc.wire)) {
        Caught::Panic(msg) => {
            return Some(Violation::new(
                "panic",
                format!("deserialising a {:?} document with String keys mutated by {m:?} panicked: {msg}", sc.wire),
            ))
        }
        Caught::Abort(msg) => return Some(Violation::new("hang", format!("deserialising a document with String keys mutated by {m:?} cannot return: {msg}"))),
        Caught::Ok(Err(_)) => {
            stats.inc("outcome_err_string_keys");
            return None;
        }
        Caught::Ok(Ok(g)) => g,
    };
    stats.inc("outcome_ok_graph_string_keys");
    let Some((dn, de)) = declared else { return None };
    if let Some((u, v, _)) = de.iter().find(|(u, v, _)| !dn.iter().any(|x| x.0 == *u) || !dn.iter().any(|x| x.0 == *v)) {
        return Some(Violation::new(
            "undeclared-key-accepted",
            format!("the document with String keys (mutation {m:?}) lists edge ({u:?},{v:?}) naming an undeclared key, yet deserialisation returned a graph"),
        ));
    }
    for (k, out) in &got {
        if !dn.iter().any(|x| x.0 == *k) {
            return Some(Violation::new("invented-content", format!("node {k:?} is not declared by the document with String keys mutated by {m:?}")));
        }
        for v in out {
            // every edge of the graph is listed (either orientation for the undirected flavours)
            let listed = de.iter().filter(|e| (e.0 == *k && e.1 == *v) || (!F::DIRECTED && e.0 == *v && e.1 == *k)).count();
            let have = out.iter().filter(|x| *x == v).count();
            let have = if !F::DIRECTED && k == v { (have + 1) / 2 } else { have };
            if have > listed {
                return Some(Violation::new(
                    "invented-content",
                    format!("edge ({k:?},{v:?}) occurs {have}x at node {k:?} but {listed}x in the document with String keys (mutation {m:?})"),
                ));
            }
        }
    }
    None
}

fn ut_check_graph<F: Flavour>(sc: &UtSc, m: &Mutation, g: &F::Graph, declared: Option<Declared>, stats: &mut Stats) -> Option<Violation> {
    let _ = sc;
    let mut nodes: Vec<(usize, F::Node)> = F::g_iter(g);
    nodes.sort_by_key(|x| x.0);
    let keys: Vec<usize> = nodes.iter().map(|x| x.0).collect();
    // (invariant checker addresses nodes by index = key; remap through a dense world)
    let dense: BTreeMap<usize, usize> = keys.iter().enumerate().map(|(i, k)| (*k, i)).collect();
    let mut canon_edges: Vec<(usize, usize, u64)> = Vec::new();
    let mut lists_ok = Ok(());
    for (k, n) in &nodes {
        let (out, inn) = World::<F>::lists_of(n);
        for (v, e) in &out {
            if !dense.contains_key(v) {
                lists_ok = Err(format!("node {k} has an edge to {v} which is not a member"));
            }
            canon_edges.push((*k, *v, *e));
        }
        for (v, _) in &inn {
            if !dense.contains_key(v) {
                lists_ok = Err(format!("node {k} has an edge from {v} which is not a member"));
            }
        }
    }
    if let Err(msg) = lists_ok {
        return Some(Violation::new("broken-graph", format!("document mutated by {m:?} produced a graph where {msg}")));
    }
    if let Err(msg) = check_sparse_invariant::<F>(&nodes) {
        return Some(Violation::new(
            "broken-graph",
            format!("document mutated by {m:?} produced a graph violating the mirror/symmetry invariant: {msg}"),
        ));
    }
    // ... and made of what the document declares
    let Some(d) = declared else {
        stats.inc("ok_graph_from_document_without_plain_reading");
        // e.g. [nodes] without an edge list: nothing further can be attributed
        return None;
    };
    for (k, n) in &nodes {
        let val = (F::prio(n), F::vid(n));
        if !d.nodes.iter().any(|(dk, dv)| dk == k && *dv == val) {
            return Some(Violation::new(
                "invented-content",
                format!("node {k} with value {val:?} is not declared by the document mutated by {m:?}"),
            ));
        }
    }
    let undeclared = d
        .edges
        .iter()
        .find(|(u, v, _)| !d.nodes.iter().any(|x| x.0 == *u) || !d.nodes.iter().any(|x| x.0 == *v));
    if let Some((u, v, e)) = undeclared {
        return Some(Violation::new(
            "undeclared-key-accepted",
            format!("the document (mutation {m:?}) lists edge ({u},{v},{e}) naming an undeclared key, yet deserialisation returned a graph with nodes {keys:?}"),
        ));
    }
    // every edge of the graph is listed, at most with the listed multiplicity
    let mut listed: BTreeMap<(usize, usize, u64), i64> = BTreeMap::new();
    for (u, v, e) in &d.edges {
        let key = if F::DIRECTED || u <= v { (*u, *v, *e) } else { (*v, *u, *e) };
        *listed.entry(key).or_insert(0) += 1;
    }
    let mut have: BTreeMap<(usize, usize, u64), i64> = BTreeMap::new();
    for (u, v, e) in &canon_edges {
        let key = if F::DIRECTED || u <= v { (*u, *v, *e) } else { (*v, *u, *e) };
        *have.entry(key).or_insert(0) += 1;
    }
    for (k, c) in &have {
        // undirected: every edge is seen from both endpoints (a self-loop twice at its node)
        let c = if F::DIRECTED { *c } else { (*c + 1) / 2 };
        if c > *listed.get(k).unwrap_or(&0) {
            return Some(Violation::new(
                "invented-content",
                format!("edge {k:?} occurs {c}x in the graph but {}x in the document (mutation {m:?})", listed.get(k).unwrap_or(&0)),
            ));
        }
    }
    None
}

/// mirror/symmetry on a graph whose keys are arbitrary
fn check_sparse_invariant<F: Flavour>(nodes: &[(usize, F::Node)]) -> Result<(), String> {
    let lists: BTreeMap<usize, (Vec<(usize, u64)>, Vec<(usize, u64)>)> =
        nodes.iter().map(|(k, n)| (*k, World::<F>::lists_of(n))).collect();
    for (u, (out, inn)) in &lists {
        if F::DIRECTED {
            for (v, _) in out {
                let from_u: Vec<u64> = out.iter().filter(|x| x.0 == *v).map(|x| x.1).collect();
                let at_v: Vec<u64> = lists[v].1.iter().filter(|x| x.0 == *u).map(|x| x.1).collect();
                if from_u != at_v {
                    return Err(format!("edges {u}->{v}: source lists {from_u:?}, target lists {at_v:?}"));
                }
            }
            for (s, _) in inn {
                let at_u: Vec<u64> = inn.iter().filter(|x| x.0 == *s).map(|x| x.1).collect();
                let from_s: Vec<u64> = lists[s].0.iter().filter(|x| x.0 == *u).map(|x| x.1).collect();
                if from_s != at_u {
                    return Err(format!("edges {s}->{u}: source lists {from_s:?}, target lists {at_u:?}"));
                }
            }
        } else {
            for (v, e) in out {
                let cu = out.iter().filter(|x| x.0 == *v && x.1 == *e).count();
                let cv = lists[v].0.iter().filter(|x| x.0 == *u && x.1 == *e).count();
                if u == v {
                    if cu % 2 != 0 {
                        return Err(format!("self-loop {e} at {u} listed {cu} times"));
                    }
                } else if cu != cv {
                    return Err(format!("edge {{{u},{v}}} value {e}: {cu}x at {u}, {cv}x at {v}"));
                }
            }
        }
    }
    for (k, n) in nodes {
        let (out, inn) = &lists[k];
        if F::DIRECTED {
            if F::out_degree(n) != out.len() || F::in_degree(n) != inn.len() {
                return Err(format!("node {k}: degrees disagree with lists"));
            }
        } else if F::out_degree(n) != out.len() {
            return Err(format!("node {k}: degree disagrees with adjacency"));
        }
    }
    Ok(())
}

fn ut_run<F: Flavour>(sc: &UtSc, stats: &mut Stats) -> Option<(Violation, Mutation)> {
    let solo = Solo::new();
    if F::SYNC {
        solo.install();
    }
    let mut out = None;
    for m in &sc.mutations {
        if let Some(v) = ut_one::<F>(sc, m, stats) {
            out = Some((v, m.clone()));
            break;
        }
        if sc.rplan.is_none() {
            if let Some(v) = ut_one_alt::<F>(sc, m, stats) {
                out = Some((v, m.clone()));
                break;
            }
        }
    }
    if F::SYNC {
        Solo::uninstall();
    }
    out
}

impl Engine for Untrusted {
    type Sc = UtSc;

    fn name(&self) -> &'static str {
        "untrusted"
    }

    fn generate(&self, rng: &mut Rng, tier: Tier) -> UtSc {
        let mut flavour = crate::flavour::FLAVOURS[rng.below(4)].to_string();
        if let Some(f) = crate::runner::only_flavour() {
            flavour = f;
        }
        let wire = *rng.pick(&[Wire::Json, Wire::Json, Wire::Cbor, Wire::Cbor, Wire::JsonValue, Wire::JsonStr]);
        if rng.chance(1, 1500) {
            // a long document: a few nodes, 4100-5200 edges (size-dependent paths of a
            // deserialiser), and only the mutations that do not grow with its length
            let n = rng.range(2, 5);
            let prios: Vec<u32> = (0..n).map(|_| rng.below(4) as u32).collect();
            let ne = rng.range(4100, 5200);
            let edges: Vec<(usize, usize, u64)> = (0..ne).map(|i| (rng.below(n), rng.below(n), 100 + i as u64)).collect();
            let base_len = encode(&base_value(&prios, &edges), wire).len();
            let mut mutations = vec![Mutation::None, Mutation::DropEdgeList, Mutation::Truncate(base_len / 2), Mutation::Truncate(base_len - 1)];
            for i in 0..n {
                mutations.push(Mutation::DropNode(i));
                mutations.push(Mutation::RedeclareNode(i));
            }
            for edge in [0, 1, ne / 2, 4095.min(ne - 1), 4096.min(ne - 1), ne - 1] {
                for end in 0..2 {
                    mutations.push(Mutation::Retarget { edge, end, key: n + rng.below(3) });
                }
                mutations.push(Mutation::DropEdge(edge));
            }
            return UtSc { flavour, wire, prios, edges, hash_seed: rng.next_u64(), mutations, rplan: None };
        }
        let small = rng.chance(3, 4);
        let (prios, edges) = gen_graph(rng, small, 6);
        let base = encode(&base_value(&prios, &edges), wire);
        let mut mutations = vec![Mutation::None];
        // enumerated: every truncation offset, every structural mutation
        for k in 0..base.len() {
            mutations.push(Mutation::Truncate(k));
        }
        for i in 0..prios.len() {
            mutations.push(Mutation::DropNode(i));
            mutations.push(Mutation::DupNode(i));
            mutations.push(Mutation::RedeclareNode(i));
            mutations.push(Mutation::RetypeNodeKey(i));
            mutations.push(Mutation::ShortenNode(i));
        }
        for i in 0..edges.len() {
            mutations.push(Mutation::DropEdge(i));
            mutations.push(Mutation::DupEdge(i));
            mutations.push(Mutation::RetypeEdgeValue(i));
            mutations.push(Mutation::ShortenEdge(i));
            for end in 0..2 {
                mutations.push(Mutation::Retarget { edge: i, end, key: prios.len() + rng.below(3) });
                mutations.push(Mutation::Retarget { edge: i, end, key: rng.below(prios.len()) });
            }
        }
        mutations.extend([
            Mutation::DropEdgeList,
            Mutation::DropBoth,
            Mutation::ExtraElement,
            Mutation::NodesNotAList,
            Mutation::EdgesNotAList,
            Mutation::TopLevelMap,
        ]);
        // seeded: pairs of structural mutations
        let structural: Vec<Mutation> = mutations
            .iter()
            .filter(|m| !matches!(m, Mutation::None | Mutation::Truncate(_) | Mutation::DropBoth | Mutation::TopLevelMap))
            .cloned()
            .collect();
        if structural.len() >= 2 {
            for _ in 0..(if tier == Tier::Quick { 12 } else { 40 }) {
                let a = structural[rng.below(structural.len())].clone();
                let b = structural[rng.below(structural.len())].clone();
                mutations.push(Mutation::Both(Box::new(a), Box::new(b)));
            }
        }
        // enumerated: at every offset, byte values that are structurally meaningful in the format
        let interesting: &[u8] = if wire.is_cbor() {
            &[0x00, 0x17, 0x18, 0x1b, 0x3b, 0x5b, 0x7b, 0x80, 0x9a, 0x9b, 0x9f, 0xbb, 0xbf, 0xf6, 0xff]
        } else {
            b"[],\"-9e{}: "
        };
        if base.len() <= 120 {
            for at in 0..base.len() {
                for v in interesting {
                    if base[at] != *v {
                        mutations.push(Mutation::ByteSet { at, val: *v });
                    }
                }
            }
        }
        // seeded: byte-level damage
        let nrand = if tier == Tier::Quick { 24 } else { 64 };
        for _ in 0..nrand {
            let at = rng.below(base.len().max(1));
            mutations.push(match rng.below(4) {
                0 => Mutation::BitFlip { byte: at, bit: rng.below(8) as u8 },
                1 => Mutation::ByteDrop(at),
                2 => Mutation::ByteDup(at),
                _ => Mutation::ByteSet { at, val: (rng.next_u64() & 0xff) as u8 },
            });
        }
        let rplan = if rng.chance(1, 3) {
            let mut p = gen_benign_plan(rng);
            if rng.coin() {
                p.fail_at = Some(rng.below(base.len() + 4));
            }
            Some(p)
        } else {
            None
        };
        UtSc {
            flavour,
            wire,
            prios,
            edges,
            hash_seed: rng.next_u64(),
            mutations,
            rplan,
        }
    }

    fn execute(&self, sc: &UtSc, stats: &mut Stats) -> Option<(Violation, UtSc)> {
        stats.inc(&format!("runs_{}_{:?}", sc.flavour, sc.wire).to_lowercase());
        if sc.rplan.is_some() {
            stats.inc("base_documents_delivered_through_faulty_reader");
        }
        let r = with_flavour!(sc.flavour.as_str(), F, ut_run::<F>(sc, stats));
        r.map(|(v, m)| {
            let mut p = sc.clone();
            p.mutations = vec![m];
            (v, p)
        })
    }

    fn shrink(&self, sc: &UtSc) -> Vec<UtSc> {
        let mut out = Vec::new();
        if sc.rplan.is_some() {
            let mut c = sc.clone();
            c.rplan = None;
            out.push(c);
        }
        // structural mutations address elements by index: only drop trailing elements
        if let Some(Mutation::Truncate(_) | Mutation::BitFlip { .. } | Mutation::ByteDrop(_) | Mutation::ByteDup(_) | Mutation::ByteSet { .. }) = sc.mutations.first() {
            return out;
        }
        if !sc.edges.is_empty() {
            let mut c = sc.clone();
            c.edges.pop();
            out.push(c);
        }
        if sc.prios.len() > 1 && !sc.edges.iter().any(|(u, v, _)| *u == sc.prios.len() - 1 || *v == sc.prios.len() - 1) {
            let mut c = sc.clone();
            c.prios.pop();
            out.push(c);
        }
        out
    }

    fn size(&self, sc: &UtSc) -> usize {
        sc.edges.len() * 4 + sc.prios.len() * 2 + sc.mutations.len() * 8 + sc.rplan.is_some() as usize
    }
}
