//! C19: handle lifetime. Payload values are registered in a per-run registry;
//! the simulator places every drop (order, and in the sync flavours the thread
//! that performs it).

use crate::flavour::{Flavour, SearchOut, ET};
use crate::gen::{self, GenCfg};
use crate::locks::{caught, Caught};
use crate::model::{Closure, MEdge, Model, Op, Prov, SKind, SMode, SearchSpec};
use crate::payload::{install_registry, Kind, Registry};
use crate::rng::Rng;
use crate::runner::{Engine, Stats, Tier, Violation};
use crate::world::World;
use crate::{hashseam, with_flavour};
use serde::{Deserialize, Serialize};
use std::collections::{BTreeMap, BTreeSet};
use std::sync::Arc;

#[derive(Clone, Debug, Serialize, Deserialize, PartialEq)]
pub enum Take {
    CloneHandle { u: usize },
    /// the i-th edge yielded by the node's outgoing iterator
    Edge { u: usize, i: usize },
    Path {
        root: usize,
        target: usize,
        kind: SKind,
        #[serde(default)]
        transpose: bool,
    },
    Cycle { root: usize, kind: SKind },
    Found {
        root: usize,
        target: usize,
        kind: SKind,
        #[serde(default)]
        transpose: bool,
    },
    Order {
        root: usize,
        post: bool,
        edges: bool,
        #[serde(default)]
        transpose: bool,
    },
    /// a container holding the listed nodes
    Graph { members: Vec<usize> },
    /// scc() output of a container holding all nodes
    Scc,
    /// scc() is called on a container holding only the listed nodes (members may have neighbours
    /// outside it: no partition is promised then, but nothing may be leaked or released either);
    /// whatever it returns is held
    SccPart { members: Vec<usize> },
    /// handle taken from a container's to_vec()
    ToVec { members: Vec<usize> },
    /// a container of all nodes is serialised and deserialised; the copy is held
    RoundTrip { cbor: bool },
    /// a container of the listed nodes goes through get / index / contains / remove + re-insert /
    /// views / DOT / iter, and is then held
    GraphOps { members: Vec<usize> },
    /// a second node object with the key of `u` is inserted by value into a container that has
    /// `u`: it is rejected and must be released
    RejectedInsert { u: usize },
    /// a path or cycle search whose `Path` goes through its whole API and is dropped
    PathApi { root: usize, target: usize, kind: SKind, cycle: bool },
    /// edges (a,b) and (c,d) carrying the SAME value are compared, ordered, sorted, reversed
    EdgeCmp { a: usize, b: usize, c: usize, d: usize },
}

#[derive(Clone, Copy, Debug, Serialize, Deserialize, PartialEq)]
pub enum DropWhat {
    Owner(usize),
    Slot(usize),
}

#[derive(Clone, Debug, Serialize, Deserialize)]
pub struct LifeSc {
    pub flavour: String,
    pub prios: Vec<u32>,
    pub hash_seed: u64,
    pub initial: Vec<(usize, usize, u64)>,
    pub ops: Vec<Op>,
    pub takes: Vec<Take>,
    /// drop sequence; entries not listed are dropped at the end in slot order
    pub drops: Vec<DropWhat>,
    /// sync flavours: drops[i] is performed on a separate thread when bit i % 64 is set
    pub other_thread_mask: u64,
    /// wear: after construction every node's edges are walked this many times (outgoing and
    /// incoming), nothing else in between - whatever a library settles, resolves or caches for
    /// read-mostly nodes must not own nodes either
    #[serde(default)]
    pub read_passes: usize,
}

pub struct Lifetime;

enum Slot<F: Flavour> {
    Node(F::Node),
    Edges(Vec<ET<F::Node>>),
    Nodes(Vec<F::Node>),
    Graph(F::Graph),
}

fn mentions<F: Flavour>(s: &Slot<F>) -> BTreeSet<usize> {
    let mut k = BTreeSet::new();
    match s {
        Slot::Node(n) => {
            k.insert(F::key(n));
        }
        Slot::Edges(v) => {
            for (a, b, _) in v {
                k.insert(F::key(a));
                k.insert(F::key(b));
            }
        }
        Slot::Nodes(v) => {
            for n in v {
                k.insert(F::key(n));
            }
        }
        Slot::Graph(g) => {
            for (key, _) in F::g_iter(g) {
                k.insert(key);
            }
        }
    }
    k
}

fn use_slot<F: Flavour>(s: &Slot<F>) {
    // node-local calls only: iteration needs every neighbour alive (documented precondition)
    let touch = |n: &F::Node| {
        let _ = (F::key(n), F::prio(n), F::out_degree(n), F::in_degree(n), F::is_orphan(n));
    };
    match s {
        Slot::Node(n) => touch(n),
        Slot::Edges(v) => {
            for (a, b, e) in v {
                touch(a);
                touch(b);
                let _ = e.0;
            }
        }
        Slot::Nodes(v) => v.iter().for_each(touch),
        Slot::Graph(g) => {
            for (_, n) in F::g_iter(g) {
                touch(&n);
            }
            let _ = F::g_len(g);
        }
    }
}

fn spec(kind: SKind, mode: SMode, target: Option<usize>) -> SearchSpec {
    spec_t(kind, mode, target, false)
}

fn spec_t(kind: SKind, mode: SMode, target: Option<usize>, transpose: bool) -> SearchSpec {
    SearchSpec {
        kind,
        mode,
        target,
        transpose: transpose && !matches!(kind, SKind::PfsMin | SKind::PfsMax),
        closure: Closure::None,
        mask: 0,
        query: false,
    }
}

/// the nodes a request names: a result that is there at all must hold them (a path its two
/// ends, a found node the target, an ordering its root, a listing every member)
fn asked_for(t: &Take, n: usize) -> BTreeSet<usize> {
    let mut k = BTreeSet::new();
    match t {
        Take::CloneHandle { u } | Take::Edge { u, .. } | Take::Cycle { root: u, .. } | Take::Order { root: u, .. } => {
            k.insert(*u);
        }
        Take::Path { root, target, .. } => {
            k.insert(*root);
            k.insert(*target);
        }
        Take::Found { target, .. } => {
            k.insert(*target);
        }
        Take::Graph { members } | Take::ToVec { members } | Take::GraphOps { members } => {
            k.extend(members.iter().copied().filter(|x| *x < n));
        }
        Take::Scc | Take::RoundTrip { .. } => {
            k.extend(0..n);
        }
        Take::RejectedInsert { u } => {
            k.insert(*u);
        }
        Take::PathApi { .. } | Take::EdgeCmp { .. } | Take::SccPart { .. } => {}
    }
    k
}

fn take<F: Flavour>(w: &World<F>, t: &Take) -> Option<Slot<F>> {
    let n = w.n();
    let ok = |x: usize| x < n;
    match t {
        Take::CloneHandle { u } if ok(*u) => Some(Slot::Node(w.nodes[*u].clone())),
        Take::Edge { u, i } if ok(*u) => {
            let mut got = None;
            let mut c = 0;
            F::for_out(&w.nodes[*u], &mut |a, b, e| {
                if c == *i {
                    got = Some((a, b, e));
                    false
                } else {
                    c += 1;
                    true
                }
            });
            got.map(|e| Slot::Edges(vec![e]))
        }
        Take::Path { root, target, kind, transpose } if ok(*root) && ok(*target) => {
            match F::search(&w.nodes[*root], &spec_t(*kind, SMode::Path, Some(*target), *transpose && F::DIRECTED), &mut |_, _, _| true) {
                SearchOut::Path(Some(p)) => Some(Slot::Edges(p)),
                _ => None,
            }
        }
        Take::Cycle { root, kind } if ok(*root) => {
            match F::search(&w.nodes[*root], &spec(*kind, SMode::Cycle, None), &mut |_, _, _| true) {
                SearchOut::Path(Some(p)) => Some(Slot::Edges(p)),
                _ => None,
            }
        }
        Take::Found { root, target, kind, transpose } if ok(*root) && ok(*target) => {
            match F::search(&w.nodes[*root], &spec_t(*kind, SMode::Find, Some(*target), *transpose && F::DIRECTED), &mut |_, _, _| true) {
                SearchOut::Node(Some(x)) => Some(Slot::Node(x)),
                _ => None,
            }
        }
        Take::Order { root, post, edges, transpose } if ok(*root) => {
            let kind = if *post { SKind::Post } else { SKind::Pre };
            let mode = if *edges { SMode::Edges } else { SMode::Nodes };
            match F::search(&w.nodes[*root], &spec_t(kind, mode, None, *transpose && F::DIRECTED), &mut |_, _, _| true) {
                SearchOut::Nodes(v) => Some(Slot::Nodes(v)),
                SearchOut::Edges(v) => Some(Slot::Edges(v)),
                _ => None,
            }
        }
        Take::Graph { members } => {
            let mut g = F::g_new();
            for k in members {
                if ok(*k) {
                    F::g_insert(&mut g, w.nodes[*k].clone());
                }
            }
            Some(Slot::Graph(g))
        }
        Take::Scc => {
            let mut g = F::g_new();
            for x in &w.nodes {
                F::g_insert(&mut g, x.clone());
            }
            F::g_scc(&g).map(|c| Slot::Nodes(c.into_iter().flatten().collect()))
        }
        Take::SccPart { members } => {
            let mut g = F::g_new();
            for k in members {
                if ok(*k) {
                    F::g_insert(&mut g, w.nodes[*k].clone());
                }
            }
            // (what scc() answers for a container that is not closed under neighbours is nobody's
            // promise - not even that it answers: only the reference counts are judged)
            match crate::locks::caught(|| F::g_scc(&g)) {
                crate::locks::Caught::Ok(Some(c)) => Some(Slot::Nodes(c.into_iter().flatten().collect())),
                _ => None,
            }
        }
        Take::RoundTrip { cbor } => {
            let mut g = F::g_new();
            for x in &w.nodes {
                F::g_insert(&mut g, x.clone());
            }
            let wire = if *cbor { crate::flavour::Wire::Cbor } else { crate::flavour::Wire::Json };
            match F::g_ser(&g, wire).and_then(|b| F::g_de(&b, wire)) {
                Ok(copy) => Some(Slot::Graph(copy)),
                Err(_) => None,
            }
        }
        Take::GraphOps { members } => {
            let mut g = F::g_new();
            for k in members {
                if ok(*k) {
                    F::g_insert(&mut g, w.nodes[*k].clone());
                }
            }
            for k in 0..n {
                let _ = F::g_get(&g, k).map(|x| F::out_degree(&x));
                if F::g_contains(&g, k) {
                    let _ = F::g_index(&g, k);
                    let _ = F::g_index_ref(&g, k);
                }
            }
            let _ = (F::g_roots(&g), F::g_leaves(&g), F::g_orphans(&g), F::g_to_vec(&g), F::g_iter(&g), F::g_len(&g), F::g_is_empty(&g));
            let _ = F::g_to_dot(&g);
            let _ = F::g_to_dot_attr(&g, crate::flavour::DotSpec { g: true, nmask: 0xffff, emask: 0xffff });
            if let Some(k) = members.first() {
                if let Some(x) = F::g_remove(&mut g, *k) {
                    F::g_insert(&mut g, x);
                }
            }
            Some(Slot::Graph(g))
        }
        Take::RejectedInsert { u } if ok(*u) => {
            let mut g = F::g_new();
            F::g_insert(&mut g, w.nodes[*u].clone());
            // a distinct node object with the same key, handed over by value
            let accepted = F::g_insert(&mut g, F::node_new(*u, crate::payload::NVal::new(7, 9000 + *u as u64)));
            if accepted {
                // (C18's business; here only the release of what was handed over matters)
            }
            Some(Slot::Graph(g))
        }
        Take::PathApi { root, target, kind, cycle } if ok(*root) && ok(*target) => {
            let sp = spec(*kind, if *cycle { SMode::Cycle } else { SMode::Path }, if *cycle { None } else { Some(*target) });
            let _ = F::path_info(&w.nodes[*root], &sp);
            None
        }
        Take::EdgeCmp { a, b, c, d } if ok(*a) && ok(*b) && ok(*c) && ok(*d) => {
            let e1 = (w.nodes[*a].clone(), w.nodes[*b].clone(), crate::payload::EVal::new(777));
            let e2 = (w.nodes[*c].clone(), w.nodes[*d].clone(), crate::payload::EVal::new(777));
            let _ = F::edge_eq(&e1, &e2);
            let _ = F::edge_cmp(&e1, &e2);
            let _ = F::edge_sort(&[e1.clone(), e2.clone(), e1.clone()]);
            let _ = F::edge_reverse(&e2);
            None
        }
        Take::ToVec { members } => {
            let mut g = F::g_new();
            for k in members {
                if ok(*k) {
                    F::g_insert(&mut g, w.nodes[*k].clone());
                }
            }
            Some(Slot::Nodes(F::g_to_vec(&g)))
        }
        _ => None,
    }
}

fn run<F: Flavour>(sc: &LifeSc, stats: &mut Stats, dropper: &dyn Fn(Box<dyn FnOnce() + '_>, bool)) -> Option<Violation> {
    crate::keys::set_style(crate::keys::style_from(sc.hash_seed));
    hashseam::set_seed(sc.hash_seed);
    let reg = Arc::new(Registry::default());
    install_registry(Some(reg.clone()));
    let result = run_inner::<F>(sc, stats, &reg, dropper);
    install_registry(None);
    result
}

fn run_inner<F: Flavour>(
    sc: &LifeSc,
    stats: &mut Stats,
    reg: &Arc<Registry>,
    dropper: &dyn Fn(Box<dyn FnOnce() + '_>, bool),
) -> Option<Violation> {
    let n = sc.prios.len();
    let world = World::<F>::new(&sc.prios, false);
    world.seed_edges(&sc.initial);
    let mut model = Model::new(F::DIRECTED, n);
    for (u, v, e) in &sc.initial {
        model.edges.push(MEdge { val: *e, u: *u, v: *v });
    }
    for op in &sc.ops {
        let obs = world.exec(op);
        if obs.is_failure() {
            stats.note(format!("construction call failed (decided under C03): {op:?}"));
            return None;
        }
        if model.apply(op, &obs).is_err() {
            stats.note("construction call disagreed with the model (decided under C03)".into());
            return None;
        }
    }
    if sc.read_passes > 0 {
        stats.inc("runs_with_tens_of_thousands_of_read_passes");
        let walked = caught(|| {
            for _ in 0..sc.read_passes {
                for x in &world.nodes {
                    F::for_out(x, &mut |_, _, _| true);
                    F::for_in(x, &mut |_, _, _| true);
                }
            }
        });
        if let Caught::Panic(m) | Caught::Abort(m) = walked {
            return Some(Violation::new("panic", format!("walking the nodes' edges {} times: {m}", sc.read_passes)));
        }
    }
    if model.edges.iter().any(|e| e.u == e.v) {
        stats.inc("probe_structure_with_self_loop");
    }
    // cycles: any edge between two nodes is a reference cycle of entries (each edge is stored
    // at both endpoints)
    if !model.edges.is_empty() {
        stats.inc("probe_structure_with_mutual_entries");
    }
    let mut slots: Vec<Option<Slot<F>>> = Vec::new();
    for t in &sc.takes {
        match caught(|| take::<F>(&world, t)) {
            Caught::Ok(s) => {
                if let Some(slot) = &s {
                    let has = mentions::<F>(slot);
                    let empty_walk = matches!(slot, Slot::Edges(v) if v.is_empty());
                    if let (false, Some(missing)) = (empty_walk, asked_for(t, n).into_iter().find(|k| !has.contains(k))) {
                        return Some(Violation::new(
                            "result-omits-node",
                            format!("the result of {t:?} holds the nodes {has:?} and not node {missing}, which the request names: a held result keeps the nodes it is about alive"),
                        ));
                    }
                }
                if s.is_some() {
                    let k = format!("{t:?}");
                    stats.inc(&format!("take_{}", k.split(|c: char| !c.is_alphanumeric()).next().unwrap_or("").to_lowercase()));
                }
                slots.push(s)
            }
            Caught::Panic(m) | Caught::Abort(m) => {
                stats.note(format!("a search used to obtain handles failed on a frozen graph (outside C19): {m}"));
                return None;
            }
        }
    }
    let mut owners: Vec<Option<F::Node>> = world.nodes.into_iter().map(Some).collect();
    drop(world.graph);
    let check = |owners: &Vec<Option<F::Node>>, slots: &Vec<Option<Slot<F>>>, when: &str| -> Option<Violation> {
        let mut held: BTreeMap<usize, usize> = BTreeMap::new();
        for (k, o) in owners.iter().enumerate() {
            if o.is_some() {
                *held.entry(k).or_insert(0) += 1;
            }
        }
        for s in slots.iter().flatten() {
            for k in mentions::<F>(s) {
                *held.entry(k).or_insert(0) += 1;
            }
        }
        for k in 0..n {
            let live = reg.live_of(Kind::Node, k as u64);
            if held.contains_key(&k) && live < 1 {
                return Some(Violation::new(
                    "premature-release",
                    format!("{when}: the value of node {k} has been released although {} handle(s) to it are still held", held[&k]),
                ));
            }
        }
        // held handles stay usable
        for s in slots.iter().flatten() {
            if let Caught::Panic(m) | Caught::Abort(m) = caught(|| use_slot::<F>(s)) {
                return Some(Violation::new("unusable-handle", format!("{when}: a held edge/path/result can no longer be used: {m}")));
            }
        }
        for o in owners.iter().flatten() {
            if let Caught::Panic(m) | Caught::Abort(m) = caught(|| {
                let _ = (F::key(o), F::out_degree(o));
            }) {
                return Some(Violation::new("unusable-handle", format!("{when}: a held node handle can no longer be used: {m}")));
            }
        }
        if !reg.st.lock().unwrap().underflow.is_empty() {
            return Some(Violation::new("double-release", format!("{when}: a payload value was dropped more often than it was created: {:?}", reg.st.lock().unwrap().underflow)));
        }
        None
    };
    // while every node is alive: neighbour lookups from every node to every key, twice
    // (lookups must not change any reference count)
    for _ in 0..2 {
        for a in owners.iter().flatten() {
            for k in 0..n + 1 {
                let r = caught(|| {
                    let _ = (F::find_out(a, k).map(|x| F::key(&x)), F::find_in(a, k).map(|x| F::key(&x)), F::is_connected(a, k));
                });
                if let Caught::Panic(m) | Caught::Abort(m) = r {
                    return Some(Violation::new("unusable-handle", format!("neighbour lookup failed while all nodes are alive: {m}")));
                }
            }
        }
        if let Some(v) = check(&owners, &slots, "after neighbour lookups, before any drop") {
            return Some(v);
        }
    }
    if let Some(v) = check(&owners, &slots, "before any drop") {
        return Some(v);
    }
    for (i, d) in sc.drops.iter().enumerate() {
        let elsewhere = F::SYNC && sc.other_thread_mask & (1 << (i % 64)) != 0;
        if elsewhere {
            stats.inc("fault_drop_on_other_thread");
        }
        match d {
            DropWhat::Owner(k) => {
                if let Some(o) = owners.get_mut(*k).and_then(|o| o.take()) {
                    stats.inc("drops_of_node_handles");
                    dropper(Box::new(move || drop(o)), elsewhere);
                }
            }
            DropWhat::Slot(s) => {
                if let Some(x) = slots.get_mut(*s).and_then(|o| o.take()) {
                    stats.inc("drops_of_result_handles");
                    dropper(Box::new(move || drop(x)), elsewhere);
                }
            }
        }
        if let Some(v) = check(&owners, &slots, &format!("after drop #{i} ({d:?})")) {
            return Some(v);
        }
        // lookups on the nodes still held (node-local: they do not need every neighbour alive
        // unless they walk the lists, which is done only while all owners are alive)
        for k in 0..n {
            if let Some(o) = &owners[k] {
                let r = caught(|| {
                    let _ = (F::out_degree(o), F::in_degree(o), F::is_root(o), F::is_leaf(o), F::is_orphan(o));
                });
                if let Caught::Panic(m) | Caught::Abort(m) = r {
                    return Some(Violation::new("unusable-handle", format!("after drop #{i}: node {k} can no longer answer queries: {m}")));
                }
            }
        }
    }
    // the program drops everything it still holds
    drop(slots);
    drop(owners);
    let st = reg.st.lock().unwrap();
    let leaked: Vec<_> = st.live.iter().filter(|(_, c)| **c != 0).map(|(k, c)| (*k, *c)).collect();
    if !leaked.is_empty() {
        return Some(Violation::new(
            "leak",
            format!("after every handle was dropped these payload values are still alive (kind, id, count): {leaked:?}"),
        ));
    }
    if !st.underflow.is_empty() {
        return Some(Violation::new("double-release", format!("payload values dropped twice: {:?}", st.underflow)));
    }
    if st.created != st.dropped {
        return Some(Violation::new("leak", format!("{} payload instances created, {} dropped", st.created, st.dropped)));
    }
    stats.add("payload_instances_tracked", st.created);
    None
}

fn here(f: Box<dyn FnOnce() + '_>, _elsewhere: bool) {
    f()
}

impl Engine for Lifetime {
    type Sc = LifeSc;

    fn name(&self) -> &'static str {
        "lifetime"
    }

    fn generate(&self, rng: &mut Rng, tier: Tier) -> LifeSc {
        let mut flavour = crate::flavour::FLAVOURS[rng.below(4)].to_string();
        if let Some(f) = crate::runner::only_flavour() {
            flavour = f;
        }
        let directed = flavour.contains("digraph");
        let small = rng.chance(1, 2);
        let n = if small { rng.range(1, 3) } else { rng.range(3, 7) };
        let prios: Vec<u32> = (0..n).map(|_| rng.below(4) as u32).collect();
        let mut m = Model::new(directed, n);
        let mut next_edge = 100;
        let mut initial = gen::gen_initial(rng, &mut m, &mut next_edge, if small { 4 } else { 10 });
        // now and then a node with 128-400 edges (parallel edges to the few other nodes, self-loops,
        // edges back): whatever a library builds for long lists - an index, a cache, a summary -
        // must not own nodes either
        let long_lists = rng.chance(1, 1500);
        if long_lists {
            for _ in 0..rng.range(128, 400) {
                next_edge += 1;
                let x = rng.below(n);
                let e = if rng.chance(4, 5) { (0, x, next_edge) } else { (x, 0, next_edge) };
                m.edges.push(crate::model::MEdge { val: e.2, u: e.0, v: e.1 });
                initial.push(e);
            }
        }
        let cfg = GenCfg {
            hub: None,
            provs: vec![Prov::Own, Prov::Clone, Prov::EdgeSrc, Prov::EdgeDst],
            w: [36, 12, 22, 6, 16, 6, 2],
        };
        let nops = if long_lists { rng.below(3) } else { rng.below(if tier == Tier::Quick { 10 } else { 25 }) };
        let mut ops = Vec::new();
        for _ in 0..nops {
            let op = gen::gen_op(rng, &m, &mut next_edge, &cfg);
            m.step(&op);
            ops.push(op);
        }
        let kinds = [SKind::Bfs, SKind::Dfs, SKind::PfsMin, SKind::PfsMax];
        let nt = rng.below(8);
        let mut takes = Vec::new();
        for _ in 0..nt {
            let u = rng.below(n);
            let v = rng.below(n);
            let subset = |rng: &mut Rng| -> Vec<usize> { (0..n).filter(|_| rng.chance(2, 3)).collect() };
            takes.push(match rng.below(14) {
                0..=1 => Take::CloneHandle { u },
                2..=3 => Take::Edge { u, i: rng.below(3) },
                4..=5 => Take::Path { root: u, target: v, kind: *rng.pick(&kinds), transpose: directed && rng.chance(1, 3) },
                6 => Take::Cycle { root: u, kind: *rng.pick(&kinds) },
                7 => Take::Found { root: u, target: v, kind: *rng.pick(&kinds), transpose: directed && rng.chance(1, 3) },
                8 => Take::Order { root: u, post: rng.coin(), edges: rng.coin(), transpose: directed && rng.chance(1, 3) },
                9 => Take::Graph { members: subset(rng) },
                10 => {
                    if directed && rng.chance(1, 3) {
                        Take::SccPart { members: subset(rng) }
                    } else if directed {
                        Take::Scc
                    } else {
                        Take::ToVec { members: subset(rng) }
                    }
                }
                _ => match rng.below(5) {
                    0 => Take::RoundTrip { cbor: rng.coin() },
                    1 => Take::GraphOps { members: subset(rng) },
                    2 => Take::RejectedInsert { u },
                    3 if rng.coin() => Take::EdgeCmp { a: u, b: v, c: rng.below(n), d: rng.below(n) },
                    3 => Take::PathApi { root: u, target: v, kind: *rng.pick(&kinds), cycle: rng.chance(1, 3) },
                    _ => Take::ToVec { members: subset(rng) },
                },
            });
        }
        let mut drops: Vec<DropWhat> = (0..n).map(DropWhat::Owner).chain((0..takes.len()).map(DropWhat::Slot)).collect();
        rng.shuffle(&mut drops);
        // sometimes leave a tail to be dropped "at program end"
        let keep = rng.below(drops.len() + 1);
        if rng.chance(1, 3) {
            drops.truncate(keep);
        }
        let read_passes = if n <= 3 && initial.len() <= 6 && !long_lists && rng.chance(1, 2500) { *rng.pick(&[256usize, 4096, 65_536, 65_536]) + rng.below(3) } else { 0 };
        LifeSc {
            read_passes,
            flavour,
            prios,
            hash_seed: rng.next_u64(),
            initial,
            ops,
            takes,
            drops,
            other_thread_mask: if rng.coin() { rng.next_u64() } else { 0 },
        }
    }

    fn execute(&self, sc: &LifeSc, stats: &mut Stats) -> Option<(Violation, LifeSc)> {
        stats.inc(&format!("runs_{}", sc.flavour));
        stats.mark(
            "history_and_drop_order",
            crate::rng::fnv(serde_json::to_string(&(&sc.flavour, &sc.initial, &sc.ops, &sc.takes, &sc.drops, sc.other_thread_mask)).unwrap().as_bytes()),
        );
        let r = match sc.flavour.as_str() {
            "sync_digraph" => run_sync::<crate::flavour::SyncDi>(sc, stats),
            "sync_ungraph" => run_sync::<crate::flavour::SyncUn>(sc, stats),
            f => with_flavour!(f, F, run::<F>(sc, stats, &here)),
        };
        r.map(|v| (v, sc.clone()))
    }

    fn shrink(&self, sc: &LifeSc) -> Vec<LifeSc> {
        let mut out = Vec::new();
        if sc.read_passes > 0 {
            for r in [0, sc.read_passes / 256, sc.read_passes / 16] {
                if r < sc.read_passes {
                    let mut c = sc.clone();
                    c.read_passes = r;
                    out.push(c);
                }
            }
        }
        if sc.other_thread_mask != 0 {
            let mut c = sc.clone();
            c.other_thread_mask = 0;
            out.push(c);
        }
        for i in (0..sc.takes.len()).rev() {
            let mut c = sc.clone();
            c.takes.remove(i);
            c.drops.retain(|d| *d != DropWhat::Slot(i));
            for d in c.drops.iter_mut() {
                if let DropWhat::Slot(s) = d {
                    if *s > i {
                        *s -= 1;
                    }
                }
            }
            out.push(c);
        }
        for ops in gen::shrink_vec(&sc.ops, 60) {
            let mut c = sc.clone();
            c.ops = ops;
            out.push(c);
        }
        for init in gen::shrink_vec(&sc.initial, 40) {
            let mut c = sc.clone();
            c.initial = init;
            out.push(c);
        }
        for d in gen::shrink_vec(&sc.drops, 40) {
            let mut c = sc.clone();
            c.drops = d;
            out.push(c);
        }
        out
    }

    fn size(&self, sc: &LifeSc) -> usize {
        sc.read_passes / 64 +
        sc.ops.len() * 8 + sc.initial.len() * 4 + sc.takes.len() * 6 + sc.drops.len() * 2 + sc.prios.len() + (sc.other_thread_mask != 0) as usize
    }
}

/// Sync flavours: a drop may be performed on another thread (with the run's
/// registry installed there).
fn run_sync<F: crate::flavour::SyncFlavour>(sc: &LifeSc, stats: &mut Stats) -> Option<Violation>
where
    F::Node: Send + Sync,
    F::Graph: Send + Sync,
{
    // the registry handle the helper threads install is the one `run` creates; it is passed
    // through a thread-local lookup at spawn time
    let dropper = |f: Box<dyn FnOnce() + '_>, elsewhere: bool| {
        if !elsewhere {
            f();
            return;
        }
        let reg = install_registry(None);
        install_registry(reg.clone());
        // SAFETY-free trick: the closure only owns Send data in the sync flavours, but the
        // trait object does not say so; wrap it.
        struct SendBox<'a>(Box<dyn FnOnce() + 'a>);
        unsafe impl Send for SendBox<'_> {}
        let b = SendBox(f);
        std::thread::scope(|s| {
            s.spawn(move || {
                let b = b;
                install_registry(reg);
                (b.0)();
                install_registry(None);
            });
        });
    };
    run::<F>(sc, stats, &dropper)
}
