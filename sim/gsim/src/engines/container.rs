//! C18: the Graph containers as key -> node maps with faithful views, under
//! simulated hash seeds (iteration order) and histories interleaving container
//! calls with edge operations on members and non-members.

use crate::flavour::{dot_e, dot_g, dot_n, DotSpec, Flavour};
use crate::gen::{self, GenCfg};
use crate::locks::{caught, Caught, Solo};
use crate::model::{MEdge, Model, Obs, Op, Prov};
use crate::payload::NVal;
use crate::rng::Rng;
use crate::runner::{Engine, Stats, Tier, Violation};
use crate::world::World;
use crate::{hashseam, with_flavour};
use serde::{Deserialize, Serialize};
use std::collections::BTreeMap;

#[derive(Clone, Debug, Serialize, Deserialize, PartialEq)]
pub enum COp {
    /// insert node object `oid` (oid < n: the original with key oid; oid >= n: a
    /// distinct edge-less node object whose key is dup_keys[oid - n])
    /// `sole`: the harness gives its only handle away (`g.insert(Node::new(..))` style) and
    /// afterwards reaches the node through the container
    Insert {
        oid: usize,
        #[serde(default)]
        sole: bool,
    },
    /// `sole`: at the moment of the call the container holds the only handle of the node
    Remove {
        k: usize,
        #[serde(default)]
        sole: bool,
    },
    Get { k: usize },
    Index { k: usize },
    Contains { k: usize },
    Len,
    IsEmpty,
    ToVec,
    Iter,
    Roots,
    Leaves,
    Orphans,
    ToDot,
    ToDotAttr(DotSpec),
    /// a fresh container instance (new simulated hash seed) with the same members
    Rebuild { hash_seed: u64, order_seed: u64 },
    Edge(Op),
    /// the DOT exports of a separate graph of `n` nodes whose keys are distinct but may PRINT
    /// alike (`PortKey`): one node statement per member and one edge statement per iterated edge,
    /// whatever the keys look like as text
    AltDot { n: usize, edges: Vec<(usize, usize)> },
}

#[derive(Clone, Debug, Serialize, Deserialize)]
pub struct ContSc {
    pub flavour: String,
    pub prios: Vec<u32>,
    pub dup_keys: Vec<usize>,
    pub hash_seed: u64,
    pub initial: Vec<(usize, usize, u64)>,
    pub ops: Vec<COp>,
    /// the first `preload` nodes are members before the history starts (big containers: a few
    /// thousand members, then a handful of calls)
    #[serde(default)]
    pub preload: usize,
}

pub struct Container;

type Attrs = std::collections::BTreeSet<(String, String)>;

#[derive(Default, Debug, PartialEq)]
struct Dot {
    graph_attrs: Attrs,
    nodes: Vec<(usize, Attrs)>,
    edges: Vec<(usize, usize, Attrs)>,
}

/// `[k="v"][k2=v2]`, `[k="v", k2="v2"]`, ... -> set of pairs
fn parse_attrs(s: &str) -> Result<Attrs, String> {
    let mut out = Attrs::new();
    let b: Vec<char> = s.chars().collect();
    let mut i = 0;
    let skip = |i: &mut usize| {
        while *i < b.len() && (b[*i].is_whitespace() || b[*i] == '[' || b[*i] == ']' || b[*i] == ',' || b[*i] == ';') {
            *i += 1;
        }
    };
    loop {
        skip(&mut i);
        if i >= b.len() {
            break;
        }
        let mut key = String::new();
        while i < b.len() && b[i] != '=' && !b[i].is_whitespace() && b[i] != ']' {
            key.push(b[i]);
            i += 1;
        }
        while i < b.len() && b[i].is_whitespace() {
            i += 1;
        }
        if i >= b.len() || b[i] != '=' {
            return Err(format!("attribute without '=' in {s:?}"));
        }
        i += 1;
        while i < b.len() && b[i].is_whitespace() {
            i += 1;
        }
        let mut val = String::new();
        if i < b.len() && b[i] == '"' {
            i += 1;
            while i < b.len() && b[i] != '"' {
                val.push(b[i]);
                i += 1;
            }
            i += 1;
        } else {
            while i < b.len() && !b[i].is_whitespace() && b[i] != ',' && b[i] != ']' && b[i] != ';' {
                val.push(b[i]);
                i += 1;
            }
        }
        out.insert((key, val));
    }
    Ok(out)
}

/// Reads a DOT document as statements; layout (indentation, separators, how attribute lists are
/// written) is not part of the property.
fn parse_dot(text: &str) -> Result<Dot, String> {
    let open = text.find('{').ok_or("no '{'")?;
    let close = text.rfind('}').ok_or("no '}'")?;
    if close < open || !text[..open].contains("graph") {
        return Err("not a `[di]graph { ... }` document".into());
    }
    let mut dot = Dot::default();
    for stmt in text[open + 1..close].split(|c| c == '\n' || c == ';') {
        let st = stmt.trim();
        if st.is_empty() {
            continue;
        }
        let (head, attrs) = match st.find('[') {
            Some(i) => (st[..i].trim(), parse_attrs(&st[i..])?),
            None => (st, Attrs::new()),
        };
        let arrow = head.find("->").or_else(|| head.find("--"));
        if let Some(a) = arrow {
            let u = head[..a].trim().trim_matches('"').parse::<usize>().map_err(|_| format!("edge statement {st:?}"))?;
            let v = head[a + 2..].trim().trim_matches('"').parse::<usize>().map_err(|_| format!("edge statement {st:?}"))?;
            dot.edges.push((crate::keys::kout_raw(u), crate::keys::kout_raw(v), attrs));
        } else if let Ok(k) = head.trim_matches('"').parse::<usize>() {
            dot.nodes.push((crate::keys::kout_raw(k), attrs));
        } else if head.contains('=') {
            dot.graph_attrs.extend(parse_attrs(head)?);
        } else {
            return Err(format!("statement {st:?} is neither a node, an edge nor a graph attribute"));
        }
    }
    dot.nodes.sort();
    dot.edges.sort();
    Ok(dot)
}

fn attrs_of(a: Option<Vec<(String, String)>>) -> Attrs {
    a.unwrap_or_default().into_iter().collect()
}

struct St<F: Flavour> {
    world: World<F>,
    dups: Vec<F::Node>,
    /// key -> oid of the member
    members: BTreeMap<usize, usize>,
    model: Model,
    /// dup index -> (edge goes dup -> original, value)
    twin: BTreeMap<usize, (bool, u64)>,
    dup_keys: Vec<usize>,
}

impl<F: Flavour> St<F> {
    fn n(&self) -> usize {
        self.world.nodes.len()
    }
    fn obj(&self, oid: usize) -> &F::Node {
        if oid < self.n() {
            &self.world.nodes[oid]
        } else {
            &self.dups[oid - self.n()]
        }
    }
    fn g(&self) -> &F::Graph {
        self.world.graph.as_ref().unwrap()
    }
    /// keys whose original currently carries a twin edge
    fn twin_keys(&self) -> Vec<usize> {
        self.twin.keys().map(|j| self.dup_keys[*j]).collect()
    }
    /// (has_in, has_out, statements) contributed by a twin edge to the member `oid` of key `k`
    fn twin_part(&self, k: usize, oid: usize) -> (bool, bool, Vec<(usize, usize, u64)>) {
        let mut r = (false, false, Vec::new());
        for (j, (dup_to_orig, e)) in &self.twin {
            if self.dup_keys[*j] != k {
                continue;
            }
            let member_is_dup = oid == self.n() + *j;
            let member_is_orig = oid == k;
            if !member_is_dup && !member_is_orig {
                continue;
            }
            // is the member the source of the edge?
            let source = member_is_dup == *dup_to_orig;
            if F::DIRECTED {
                if source {
                    r.1 = true;
                    r.2.push((k, k, *e));
                } else {
                    r.0 = true;
                }
            } else {
                r.0 = true;
                r.1 = true;
                r.2.push((k, k, *e));
            }
        }
        r
    }
    /// expected (u, v, value) statements from iterating the members with `for e in &node`
    fn expected_edges(&self) -> Vec<(usize, usize, u64)> {
        let mut out = Vec::new();
        for (k, oid) in &self.members {
            out.extend(self.twin_part(*k, *oid).2);
            if *oid >= self.n() {
                continue;
            }
            if F::DIRECTED {
                for (v, e) in self.model.out(*k) {
                    out.push((*k, v, e));
                }
            } else {
                for (v, e) in self.model.out(*k) {
                    out.push((*k, v, e));
                }
                for (v, e) in self.model.inn(*k) {
                    out.push((*k, v, e));
                }
            }
        }
        out.sort();
        out
    }
    fn view(&self, which: &str) -> Vec<usize> {
        let mut v = Vec::new();
        for (k, oid) in &self.members {
            let (has_in, has_out) = if *oid >= self.n() {
                (false, false)
            } else if F::DIRECTED {
                (!self.model.inn(*k).is_empty(), !self.model.out(*k).is_empty())
            } else {
                let a = !self.model.adj(*k).is_empty();
                (a, a)
            };
            let tp = self.twin_part(*k, *oid);
            let (has_in, has_out) = (has_in || tp.0, has_out || tp.1);
            let take = match which {
                "roots" => !has_in,
                "leaves" => !has_out,
                _ => !has_in && !has_out,
            };
            if take {
                v.push(*k);
            }
        }
        v
    }
}

/// "hand out the inserted nodes themselves": a returned original must show the edges of the
/// node that was inserted (a detached copy with the same key and value would not)
fn same_nodes<F: Flavour>(st: &St<F>, v: &[F::Node], what: &str) -> Result<(), (String, String)> {
    for node in v {
        let k = F::key(node);
        if k >= st.n() || st.members.get(&k) != Some(&k) || st.twin_keys().contains(&k) {
            continue;
        }
        let (mut out, mut inn) = World::<F>::lists_of(node);
        let (mut wo, mut wi) = if F::DIRECTED {
            (st.model.out(k), st.model.inn(k))
        } else {
            (st.model.adj(k), st.model.adj(k))
        };
        if !F::DIRECTED {
            out.sort();
            inn.sort();
            wo.sort();
            wi.sort();
        }
        if out != wo || inn != wi {
            return Err((
                format!("view:{what}"),
                format!("the node with key {k} handed out by {what}() lists {out:?} / {inn:?}, the inserted node has {wo:?} / {wi:?}"),
            ));
        }
    }
    Ok(())
}

fn keyset<F: Flavour>(v: &[F::Node]) -> Vec<(usize, u64)> {
    let mut k: Vec<(usize, u64)> = v.iter().map(|n| (F::key(n), F::vid(n))).collect();
    k.sort();
    k
}

fn step<F: Flavour>(st: &mut St<F>, op: &COp, stats: &mut Stats) -> Result<(), (String, String)> {
    let fail = |class: &str, msg: String| Err((class.to_string(), msg));
    let member_ids = |st: &St<F>| -> Vec<(usize, u64)> { st.members.iter().map(|(k, oid)| (*k, F::vid(st.obj(*oid)))).collect() };
    match op {
        COp::Insert { oid, sole } => {
            let key = F::key(st.obj(*oid));
            let present = st.members.contains_key(&key);
            let sole = *sole && !present && *oid < st.n();
            let node = if sole {
                // hand over the only handle; it is fetched back from the container below
                stats.inc("probe_insert_of_sole_handle");
                std::mem::replace(&mut st.world.nodes[*oid], F::node_new(key, NVal::new(0, 999_999)))
            } else {
                st.obj(*oid).clone()
            };
            let r = F::g_insert(st.world.graph.as_mut().unwrap(), node);
            if sole {
                match F::g_get(st.g(), key) {
                    Some(n) => st.world.nodes[*oid] = n,
                    None => return fail("map:insert", format!("node {key} inserted by value cannot be fetched back")),
                }
            }
            if r == present {
                return fail("map:insert", format!("insert of key {key} returned {r} while the key was {}present", if present { "" } else { "not " }));
            }
            if present {
                stats.inc("probe_insert_of_present_key");
            } else {
                st.members.insert(key, *oid);
            }
            // the original is kept
            let got = F::g_get(st.g(), key).map(|n| F::vid(&n));
            let want = Some(F::vid(st.obj(st.members[&key])));
            if got != want {
                return fail("map:insert", format!("after insert of key {key} the member has value id {got:?}, expected {want:?} (the first inserted node must be kept)"));
            }
            if let Err(m) = st.world.compare_with_skipping(&st.model, &st.twin_keys()) {
                return fail("map:insert", format!("insert of key {key} changed the edges: {m}"));
            }
        }
        COp::Remove { k, sole } => {
            let sole = *sole && st.members.get(k) == Some(k);
            if sole {
                // drop the harness's own handle first: the container holds the only one
                stats.inc("probe_remove_while_container_holds_only_handle");
                let own = std::mem::replace(&mut st.world.nodes[*k], F::node_new(*k, NVal::new(0, 999_999)));
                drop(own);
            }
            let removed = F::g_remove(st.world.graph.as_mut().unwrap(), *k);
            let r = removed.as_ref().map(|n| F::vid(n));
            if sole {
                match removed {
                    Some(n) => st.world.nodes[*k] = n,
                    None => return fail("map:remove", format!("remove({k}) of a member returned None")),
                }
            }
            let want = st.members.remove(k).map(|oid| F::vid(st.obj(oid)));
            if r != want {
                return fail("map:remove", format!("remove({k}) returned node value id {r:?}, map model says {want:?}"));
            }
            // removing a member changes membership only: its edges are untouched
            if let Err(m) = st.world.compare_with_skipping(&st.model, &st.twin_keys()) {
                return fail("map:remove", format!("remove({k}) changed the edges: {m}"));
            }
        }
        COp::Get { k } => {
            let r = F::g_get(st.g(), *k).map(|n| F::vid(&n));
            let want = st.members.get(k).map(|oid| F::vid(st.obj(*oid)));
            if r != want {
                return fail("map:get", format!("get({k}) = {r:?}, map model says {want:?}"));
            }
            if let Some(n) = F::g_get(st.g(), *k) {
                same_nodes::<F>(st, &[n], "get")?;
            }
        }
        COp::Index { k } => {
            if let Some(oid) = st.members.get(k) {
                let r = F::vid(&F::g_index(st.g(), *k));
                let want = F::vid(st.obj(*oid));
                if r != want {
                    return fail("map:index", format!("g[{k}] has value id {r}, member has {want}"));
                }
                if let Some(n) = F::g_index_ref(st.g(), *k) {
                    if F::vid(&n) != want {
                        return fail("map:index", format!("g[&{k}] has value id {}, member has {want}", F::vid(&n)));
                    }
                }
            }
        }
        COp::Contains { k } => {
            let r = F::g_contains(st.g(), *k);
            if r != st.members.contains_key(k) {
                return fail("map:contains", format!("contains({k}) = {r}, members {:?}", st.members.keys().collect::<Vec<_>>()));
            }
        }
        COp::Len => {
            let r = F::g_len(st.g());
            if r != st.members.len() {
                return fail("map:len", format!("len() = {r}, {} members", st.members.len()));
            }
        }
        COp::IsEmpty => {
            if F::g_is_empty(st.g()) != st.members.is_empty() {
                return fail("map:is_empty", format!("is_empty() disagrees with {} members", st.members.len()));
            }
        }
        COp::ToVec => {
            let v = F::g_to_vec(st.g());
            let r = keyset::<F>(&v);
            if r != member_ids(st) {
                return fail("view:to_vec", format!("to_vec() = {r:?}, members {:?}", member_ids(st)));
            }
            same_nodes::<F>(st, &v, "to_vec")?;
        }
        COp::Iter => {
            let it = F::g_iter(st.g());
            let mut r: Vec<(usize, u64)> = it.iter().map(|(k, n)| (*k, F::vid(n))).collect();
            if it.iter().any(|(k, n)| *k != F::key(n)) {
                return fail("view:iter", "iter() pairs a key with a node of another key".to_string());
            }
            r.sort();
            if r != member_ids(st) {
                return fail("view:iter", format!("iter() = {r:?}, members {:?}", member_ids(st)));
            }
            let v: Vec<F::Node> = it.iter().map(|x| x.1.clone()).collect();
            same_nodes::<F>(st, &v, "iter")?;
        }
        COp::Roots | COp::Leaves | COp::Orphans => {
            let (name, got) = match op {
                COp::Roots => ("roots", F::g_roots(st.g())),
                COp::Leaves => ("leaves", F::g_leaves(st.g())),
                _ => ("orphans", Some(F::g_orphans(st.g()))),
            };
            if let Some(got) = got {
                let mut r: Vec<usize> = got.iter().map(|n| F::key(n)).collect();
                r.sort();
                let want = st.view(name);
                if r != want {
                    return fail(&format!("view:{name}"), format!("{name}() = {r:?}, expected {want:?} (members {:?}, edges {:?})", st.members.keys().collect::<Vec<_>>(), st.model.edges));
                }
                same_nodes::<F>(st, &got, name)?;
                stats.inc(&format!("view_{name}_checked"));
            }
        }
        COp::ToDot => {
            let text = F::g_to_dot(st.g());
            let dot = match parse_dot(&text) {
                Ok(d) => d,
                Err(m) => return fail("dot:to_dot", format!("{m} in {text:?}")),
            };
            let nodes: Vec<usize> = dot.nodes.iter().map(|x| x.0).collect();
            let edges: Vec<(usize, usize)> = dot.edges.iter().map(|x| (x.0, x.1)).collect();
            let want_nodes: Vec<usize> = st.members.keys().copied().collect();
            let want_edges: Vec<(usize, usize)> = st.expected_edges().iter().map(|x| (x.0, x.1)).collect();
            if nodes != want_nodes {
                return fail("dot:to_dot", format!("node statements {nodes:?}, members {want_nodes:?}"));
            }
            if edges != want_edges {
                return fail("dot:to_dot", format!("edge statements {edges:?}, edges of the members {want_edges:?}"));
            }
            stats.inc("dot_exports_checked");
        }
        COp::AltDot { n, edges } => {
            let edges: Vec<(usize, usize)> = edges.iter().filter(|(u, v)| u < n && v < n).copied().collect();
            let (plain, with_attr) = F::alt_dot(*n, &edges);
            let name = |k: usize| crate::flavour::port_key(k).to_string();
            let mut want_nodes: Vec<String> = (0..*n).map(name).collect();
            want_nodes.sort();
            let mut want_edges: Vec<(String, String)> = Vec::new();
            for (u, v) in &edges {
                want_edges.push((name(*u), name(*v)));
                if !F::DIRECTED {
                    want_edges.push((name(*v), name(*u)));
                }
            }
            want_edges.sort();
            for (which, text) in [("to_dot", Some(plain)), ("to_dot_with_attr", with_attr)] {
                let Some(text) = text else { continue };
                let (Some(open), Some(close)) = (text.find('{'), text.rfind('}')) else {
                    return fail(&format!("dot:{which}"), format!("not a `graph {{ ... }}` document: {text:?}"));
                };
                let (mut nodes, mut es) = (Vec::new(), Vec::new());
                for stmt in text[open + 1..close].split(|c| c == '\n' || c == ';') {
                    let head: String = stmt.split('[').next().unwrap_or("").chars().filter(|c| !c.is_whitespace() && *c != '"').collect();
                    if head.is_empty() {
                        continue;
                    }
                    if let Some(a) = head.find("->").or_else(|| head.find("--")) {
                        es.push((head[..a].to_string(), head[a + 2..].to_string()));
                    } else {
                        nodes.push(head);
                    }
                }
                nodes.sort();
                es.sort();
                if nodes != want_nodes {
                    return fail(&format!("dot:{which}"), format!("keys that print alike: node statements {nodes:?}, one per member would be {want_nodes:?}"));
                }
                if es != want_edges {
                    return fail(&format!("dot:{which}"), format!("keys that print alike: edge statements {es:?}, one per iterated edge would be {want_edges:?}"));
                }
            }
            stats.inc("dot_exports_with_keys_that_print_alike_checked");
        }
        COp::ToDotAttr(spec) => {
            let Some(text) = F::g_to_dot_attr(st.g(), *spec) else { return Ok(()) };
            let got = match parse_dot(&text) {
                Ok(d) => d,
                Err(m) => return fail("dot:to_dot_with_attr", format!("{m} in {text:?}")),
            };
            let mut want = Dot {
                graph_attrs: attrs_of(dot_g(*spec)),
                ..Default::default()
            };
            for (k, oid) in &st.members {
                want.nodes.push((*k, attrs_of(dot_n(*spec, *k, F::prio(st.obj(*oid))))));
            }
            for (u, v, e) in st.expected_edges() {
                want.edges.push((u, v, attrs_of(dot_e(*spec, u, v, e))));
            }
            want.nodes.sort();
            want.edges.sort();
            if got != want {
                let what = if got.graph_attrs != want.graph_attrs {
                    format!("graph attributes {:?}, callback supplied {:?}", got.graph_attrs, want.graph_attrs)
                } else if got.nodes != want.nodes {
                    let extra: Vec<_> = got.nodes.iter().filter(|x| !want.nodes.contains(x)).take(3).collect();
                    let missing: Vec<_> = want.nodes.iter().filter(|x| !got.nodes.contains(x)).take(3).collect();
                    format!("node statements: unexpected {extra:?}, missing {missing:?} ({} vs {} members)", got.nodes.len(), want.nodes.len())
                } else {
                    let extra: Vec<_> = got.edges.iter().filter(|x| !want.edges.contains(x)).take(3).collect();
                    let missing: Vec<_> = want.edges.iter().filter(|x| !got.edges.contains(x)).take(3).collect();
                    format!("edge statements: unexpected {extra:?}, missing {missing:?} ({} vs {} edges obtained by iterating the members)", got.edges.len(), want.edges.len())
                };
                return fail("dot:to_dot_with_attr", what);
            }
            stats.inc("dot_attr_exports_checked");
        }
        COp::Rebuild { hash_seed, order_seed } => {
            hashseam::set_seed(*hash_seed);
            let mut order: Vec<usize> = st.members.values().copied().collect();
            Rng::new(*order_seed).shuffle(&mut order);
            let before: Vec<usize> = F::g_iter(st.g()).iter().map(|x| x.0).collect();
            // the new instance comes from new(), default() or with_capacity(), by the seed
            let mut g = match *order_seed % 3 {
                0 => F::g_new(),
                1 => F::g_default(),
                _ => F::g_with_capacity((*order_seed % 97) as usize).unwrap_or_else(F::g_new),
            };
            for oid in order {
                F::g_insert(&mut g, st.obj(oid).clone());
            }
            let after: Vec<usize> = F::g_iter(&g).iter().map(|x| x.0).collect();
            if before != after {
                stats.inc("probe_container_order_differed_between_instances");
            }
            st.world.graph = Some(g);
        }
        COp::Edge(op) => {
            // through the container's own handles when the member is the original node
            let mut op = op.clone();
            let u = op.subject();
            let member_is_original = st.members.get(&u) == Some(&u);
            if matches!(op.prov(), Prov::Get | Prov::Index) && !member_is_original {
                op = gen::plain_prov(&op);
            }
            let obs = st.world.exec(&op);
            if let Obs::Panic(m) | Obs::Abort(m) = &obs {
                return fail("edge-op-failed", format!("{op:?}: {m}"));
            }
            if let Err(m) = st.model.apply(&op, &obs) {
                return fail("handle-identity", format!("{op:?} through a container handle: {m}"));
            }
            if op.is_mutation() {
                if matches!(op.prov(), Prov::Get | Prov::Index) {
                    stats.inc("probe_mutation_through_container_handle");
                }
                if let Err(m) = st.world.compare_with_skipping(&st.model, &st.twin_keys()) {
                    return fail("handle-identity", format!("after {op:?}: change not visible through the other handles: {m}"));
                }
            }
        }
    }
    Ok(())
}

fn run<F: Flavour>(sc: &ContSc, stats: &mut Stats) -> Option<(Violation, usize)> {
    crate::keys::set_style(crate::keys::style_from(sc.hash_seed));
    hashseam::set_seed(sc.hash_seed);
    let solo = Solo::new();
    if F::SYNC {
        solo.install();
    }
    let n = sc.prios.len();
    let mut world = World::<F>::new(&sc.prios, false);
    world.graph = Some(F::g_new());
    world.seed_edges(&sc.initial);
    let mut model = Model::new(F::DIRECTED, n);
    for (u, v, e) in &sc.initial {
        model.edges.push(MEdge { val: *e, u: *u, v: *v });
    }
    let dups: Vec<F::Node> = sc
        .dup_keys
        .iter()
        .enumerate()
        .map(|(j, k)| F::node_new(*k, NVal::new(9, 5000 + j as u64)))
        .collect();
    let mut st = St::<F> {
        world,
        dups,
        members: BTreeMap::new(),
        model,
        twin: BTreeMap::new(),
        dup_keys: sc.dup_keys.clone(),
    };
    if sc.preload > 0 {
        stats.inc("runs_with_thousands_of_members");
        for k in 0..sc.preload.min(n) {
            let node = st.world.nodes[k].clone();
            F::g_insert(st.world.graph.as_mut().unwrap(), node);
            st.members.insert(k, k);
        }
    }
    let mut out = None;
    for (i, op) in sc.ops.iter().enumerate() {
        stats.inc("calls");
        if F::SYNC {
            solo.set_budget(2_000_000 + 200 * n as u64);
        }
        let kind = format!("{op:?}");
        let kind = kind.split(|c: char| !c.is_alphanumeric()).next().unwrap_or("").to_lowercase();
        stats.inc(&format!("cop_{kind}"));
        let shape = if st.members.len() > 200 { st.members.len() as u64 } else { crate::rng::fnv(format!("{:?}|{}", st.members.keys().collect::<Vec<_>>(), st.model.shape_hash()).as_bytes()) };
        stats.mark("state_and_call", shape ^ crate::rng::fnv(kind.as_bytes()));
        let r = caught(|| step::<F>(&mut st, op, stats));
        match r {
            Caught::Ok(Ok(())) => {}
            Caught::Ok(Err((class, msg))) => {
                out = Some((Violation::new(class, format!("call #{i} {op:?}: {msg}")), i));
                break;
            }
            Caught::Panic(m) | Caught::Abort(m) => {
                out = Some((Violation::new(format!("panic:{kind}"), format!("call #{i} {op:?} did not return: {m}")), i));
                break;
            }
        }
    }
    if F::SYNC {
        Solo::uninstall();
    }
    out
}

impl Engine for Container {
    type Sc = ContSc;

    fn name(&self) -> &'static str {
        "container"
    }

    fn generate(&self, rng: &mut Rng, tier: Tier) -> ContSc {
        let mut flavour = crate::flavour::FLAVOURS[rng.below(4)].to_string();
        if let Some(f) = crate::runner::only_flavour() {
            flavour = f;
        }
        let directed = flavour.contains("digraph");
        if rng.chance(1, 8000) {
            // a container with more than 4096 members (no edges), then a handful of calls: members
            // leave and come back, views and exports in between
            let n = rng.range(4100, 5200);
            let mut ops = Vec::new();
            for _ in 0..rng.range(3, 9) {
                let k = rng.below(n);
                ops.push(match rng.below(10) {
                    0..=2 => COp::Remove { k, sole: false },
                    3..=4 => COp::Insert { oid: k, sole: false },
                    5 => COp::ToVec,
                    6 => COp::Len,
                    7 => COp::Iter,
                    8 => rng.pick(&[COp::Roots, COp::Leaves, COp::Orphans, COp::ToDot]).clone(),
                    _ => COp::Get { k },
                });
                if let Some(COp::Remove { k, .. }) = ops.last().cloned() {
                    // mostly the member comes straight back
                    if rng.chance(3, 4) {
                        ops.push(COp::Insert { oid: k, sole: false });
                        ops.push(rng.pick(&[COp::ToVec, COp::Len, COp::Iter, COp::Orphans]).clone());
                    }
                }
            }
            return ContSc { flavour, prios: vec![0; n], dup_keys: vec![0], hash_seed: rng.next_u64(), initial: Vec::new(), ops, preload: n };
        }
        let small = rng.chance(1, 2);
        let n = if small {
            rng.range(1, 3)
        } else if rng.chance(1, 30) {
            // now and then a container well beyond a handful of members
            rng.range(20, 70)
        } else {
            rng.range(4, 9)
        };
        let prios: Vec<u32> = (0..n).map(|_| rng.below(4) as u32).collect();
        let dup_keys: Vec<usize> = (0..rng.range(1, 3)).map(|_| rng.below(n)).collect();
        let mut m = Model::new(directed, n);
        let mut next_edge = 100;
        let initial = gen::gen_initial(rng, &mut m, &mut next_edge, if small { 3 } else { 10 });
        let nops = if small { rng.range(1, 16) } else { rng.range(10, if tier == Tier::Quick { 80 } else { 200 }) };
        let mut cfg = GenCfg::mutations_and_queries();
        cfg.provs = vec![Prov::Own, Prov::Get, Prov::Get, Prov::Index, Prov::Index, Prov::Clone, Prov::EdgeSrc];
        cfg.w = [30, 10, 20, 6, 10, 5, 0];
        let mut ops = Vec::new();
        // most histories start by inserting a good part of the nodes
        let mut members = std::collections::BTreeSet::new();
        for _ in 0..nops {
            let k = if rng.chance(1, 15) { gen::NO_SUCH_KEY } else { rng.below(n) };
            let op = match rng.below(100) {
                0..=21 => {
                    let oid = if rng.chance(1, 5) { n + rng.below(dup_keys.len()) } else { rng.below(n) };
                    COp::Insert { oid, sole: rng.chance(1, 3) }
                }
                22..=29 => COp::Remove { k, sole: rng.chance(1, 2) },
                30..=35 => COp::Get { k },
                36..=40 => COp::Index { k },
                41..=44 => COp::Contains { k },
                45..=46 => COp::Len,
                47 => COp::IsEmpty,
                48..=51 => COp::ToVec,
                52..=54 => COp::Iter,
                55..=57 => COp::Roots,
                58..=60 => COp::Leaves,
                61..=63 => COp::Orphans,
                64..=67 => COp::ToDot,
                68..=71 => COp::ToDotAttr(DotSpec {
                    g: rng.coin(),
                    nmask: (rng.next_u64() & 0xffff) as u16,
                    emask: (rng.next_u64() & 0xffff) as u16,
                }),
                72 if rng.chance(1, 4) => {
                    let an = rng.range(2, 6);
                    let edges = (0..rng.below(7)).map(|_| (rng.below(an), rng.below(an))).collect();
                    COp::AltDot { n: an, edges }
                }
                72..=74 => COp::Rebuild { hash_seed: rng.next_u64(), order_seed: rng.next_u64() },
                _ => {
                    let op = gen::gen_op(rng, &m, &mut next_edge, &cfg);
                    m.step(&op);
                    COp::Edge(op)
                }
            };
            if let COp::Insert { oid, .. } = &op {
                members.insert(*oid);
            }
            ops.push(op);
        }
        ContSc {
            flavour,
            prios,
            dup_keys,
            hash_seed: rng.next_u64(),
            initial,
            ops,
            preload: 0,
        }
    }

    fn execute(&self, sc: &ContSc, stats: &mut Stats) -> Option<(Violation, ContSc)> {
        stats.inc(&format!("runs_{}", sc.flavour));
        let r = with_flavour!(sc.flavour.as_str(), F, run::<F>(sc, stats));
        r.map(|(v, i)| {
            let mut p = sc.clone();
            p.ops.truncate(i + 1);
            (v, p)
        })
    }

    fn shrink(&self, sc: &ContSc) -> Vec<ContSc> {
        let mut out = Vec::new();
        for ops in gen::shrink_vec(&sc.ops, 200) {
            if ops.is_empty() {
                continue;
            }
            let mut c = sc.clone();
            c.ops = ops;
            out.push(c);
        }
        for init in gen::shrink_vec(&sc.initial, 40) {
            let mut c = sc.clone();
            c.initial = init;
            out.push(c);
        }
        // drop the highest node when nothing refers to it
        let n = sc.prios.len();
        if n > 1 {
            let k = n - 1;
            let used = sc.initial.iter().any(|(u, v, _)| *u == k || *v == k)
                || sc.dup_keys.contains(&k)
                || sc.ops.iter().any(|o| match o {
                    COp::Insert { oid, .. } => *oid >= k,
                    COp::Remove { k: x, .. } | COp::Get { k: x } | COp::Index { k: x } | COp::Contains { k: x } => *x == k,
                    COp::Edge(op) => gen::remap_op(op, k).is_none(),
                    _ => false,
                });
            if !used {
                let mut c = sc.clone();
                c.prios.pop();
                out.push(c);
            }
        }
        let plain: Vec<COp> = sc
            .ops
            .iter()
            .map(|o| match o {
                COp::Edge(op) => COp::Edge(gen::plain_prov(op)),
                o => o.clone(),
            })
            .collect();
        if plain != sc.ops {
            let mut c = sc.clone();
            c.ops = plain;
            out.push(c);
        }
        out
    }

    fn size(&self, sc: &ContSc) -> usize {
        sc.ops.len() * 8
            + sc.initial.len() * 4
            + sc.prios.len() * 2
            + sc
                .ops
                .iter()
                .filter(|o| matches!(o, COp::Edge(op) if op.prov() != Prov::Own))
                .count()
    }
}
