//! C17: several simulated caller threads on shared sync nodes. The scheduler
//! owns every interleaving of lock acquisitions and the lock's queueing
//! policy; verdicts: deadlock, hang, panic/poison, quiescent invariants,
//! serialisability of the mutating calls against the reference model.

use crate::flavour::SyncFlavour;
use crate::gen::{self, GenCfg};
use crate::locks::{caught, AbortKind, Caught, Policy, PolicyKind, Sched, Solo, TaskObs};
use crate::model::{MEdge, Model, Obs, Op, Prov};
use crate::rng::{self, Rng};
use crate::runner::{Engine, Stats, Tier, Violation};
use crate::world::{Lists, World};
use crate::hashseam;
use serde::{Deserialize, Serialize};
use std::collections::BTreeSet;

#[derive(Clone, Debug, Serialize, Deserialize)]
pub struct ConcSc {
    pub flavour: String,
    pub prios: Vec<u32>,
    pub hash_seed: u64,
    pub initial: Vec<(usize, usize, u64)>,
    pub tasks: Vec<Vec<Op>>,
    pub policy: Policy,
    pub sched_seed: u64,
    /// schedule seeds tried when no decision trace is forced
    pub tries: u32,
    /// recorded scheduling decisions (task ids); replay forces them
    pub forced: Option<Vec<u32>>,
    /// all nodes are also members of one container shared (read-only) by the tasks
    #[serde(default)]
    pub shared_container: bool,
}

/// `only_invariant`: report only the quiescent C01/C02 invariant (used by the
/// C01/C02 checks so that a violation is attributed to the right property).
pub struct Conc {
    pub only_invariant: Option<bool>, // Some(directed)
}

pub struct RunOut {
    pub violation: Option<Violation>,
    pub trace: Vec<u32>,
    pub mismatch: bool,
    pub branching: Vec<Vec<u32>>,
}

fn model_matches(real: &[Lists], m: &Model) -> bool {
    for (u, (out, inn)) in real.iter().enumerate() {
        if m.directed {
            if *out != m.out(u) || *inn != m.inn(u) {
                return false;
            }
        } else {
            let mut a = out.clone();
            a.sort();
            if a != m.adj(u) {
                return false;
            }
        }
    }
    true
}

pub enum Ser {
    Yes,
    No,
    Undecided,
}

/// Is there an interleaving of the per-task sequences of mutating calls
/// (program order kept) that reproduces every recorded return value and ends
/// in the real graph?
pub fn serialisable(m0: &Model, tasks: &[Vec<(Op, Obs)>], real: &[Lists], budget: &mut u64) -> Ser {
    fn go(
        m: &Model,
        pos: &mut Vec<usize>,
        tasks: &[Vec<(Op, Obs)>],
        real: &[Lists],
        seen: &mut BTreeSet<(Vec<usize>, u64)>,
        budget: &mut u64,
    ) -> Ser {
        if *budget == 0 {
            return Ser::Undecided;
        }
        *budget -= 1;
        if pos.iter().zip(tasks).all(|(p, t)| *p == t.len()) {
            return if model_matches(real, m) { Ser::Yes } else { Ser::No };
        }
        if !seen.insert((pos.clone(), m.state_hash())) {
            return Ser::No;
        }
        let mut undecided = false;
        for t in 0..tasks.len() {
            if pos[t] < tasks[t].len() {
                let (op, obs) = &tasks[t][pos[t]];
                let mut m2 = m.clone();
                if m2.apply(op, obs).is_ok() {
                    pos[t] += 1;
                    let r = go(&m2, pos, tasks, real, seen, budget);
                    pos[t] -= 1;
                    match r {
                        Ser::Yes => return Ser::Yes,
                        Ser::Undecided => undecided = true,
                        Ser::No => {}
                    }
                }
            }
        }
        if undecided {
            Ser::Undecided
        } else {
            Ser::No
        }
    }
    let mut pos = vec![0; tasks.len()];
    let mut seen = BTreeSet::new();
    go(m0, &mut pos, tasks, real, &mut seen, budget)
}

/// the calls of task `t` on a fresh copy of the scenario's graph, nothing else running
fn run_alone<F: SyncFlavour>(sc: &ConcSc, t: usize) -> Vec<Obs>
where
    F::Node: Send + Sync,
    F::Graph: Send + Sync,
{
    crate::keys::set_style(crate::keys::style_from(sc.hash_seed));
    hashseam::set_seed(sc.hash_seed);
    let world = World::<F>::new(&sc.prios, sc.shared_container);
    world.seed_edges(&sc.initial);
    // on a thread of its own, like the task it mirrors: whatever the library keeps per thread
    // (thread-locals) starts fresh and ends with it
    std::thread::scope(|s| {
        let world = &world;
        s.spawn(move || {
            hashseam::set_seed(rng::mix(sc.hash_seed ^ (t as u64 + 1)));
            let solo = Solo::new();
            solo.install();
            let mut obs = Vec::new();
            for op in &sc.tasks[t] {
                let o = world.exec(op);
                let stop = matches!(o, Obs::Abort(_));
                obs.push(o);
                if stop {
                    break;
                }
            }
            Solo::uninstall();
            if let Some(h) = solo.harness_error() {
                eprintln!("HARNESS-ERROR: {h}");
                std::process::exit(2);
            }
            obs
        })
        .join()
        .expect("run-alone thread")
    })
}

fn run_once<F: SyncFlavour>(sc: &ConcSc, sched_rng: Rng, forced: Option<Vec<u32>>, only_inv: bool, stats: &mut Stats) -> RunOut
where
    F::Node: Send + Sync,
    F::Graph: Send + Sync,
{
    crate::keys::set_style(crate::keys::style_from(sc.hash_seed));
    hashseam::set_seed(sc.hash_seed);
    let world = World::<F>::new(&sc.prios, sc.shared_container);
    world.seed_edges(&sc.initial);
    let mut m0 = Model::new(F::DIRECTED, sc.prios.len());
    for (u, v, e) in &sc.initial {
        m0.edges.push(MEdge { val: *e, u: *u, v: *v });
    }
    let nt = sc.tasks.len();
    let sched = Sched::new(nt, sc.policy.clone(), sched_rng, forced, 100_000);
    for k in 0..world.n() {
        sched.name_lock(k, || {
            let _ = F::out_degree(&world.nodes[k]);
        });
    }
    let mut results: Vec<Vec<Obs>> = Vec::new();
    let outcome = std::thread::scope(|s| {
        let mut handles = Vec::new();
        for (tid, script) in sc.tasks.iter().enumerate() {
            let sched = sched.clone();
            let world = &world;
            let hs = rng::mix(sc.hash_seed ^ (tid as u64 + 1));
            handles.push(s.spawn(move || {
                hashseam::set_seed(hs);
                TaskObs::install(&sched, tid);
                let mut obs = Vec::with_capacity(script.len());
                if sched.wait_start(tid) {
                    for op in script {
                        let o = world.exec(op);
                        let stop = matches!(o, Obs::Abort(_));
                        obs.push(o);
                        if stop {
                            break;
                        }
                    }
                }
                gdsl::verif::install(None);
                sched.finish(tid);
                obs
            }));
        }
        let outcome = sched.run_to_completion();
        for h in handles {
            results.push(h.join().expect("task thread"));
        }
        outcome
    });
    if let Some(h) = &outcome.harness_error {
        eprintln!("HARNESS-ERROR: {h}");
        std::process::exit(2);
    }
    stats.add("lock_points", outcome.probes.decisions);
    stats.add("context_switches", outcome.probes.switches);
    stats.add("fault_lock_wait_queued", outcome.probes.queued_events);
    stats.add("probe_writer_queued_behind_reader", outcome.probes.writer_queued_behind_reader);
    stats.add("probe_writer_queued_behind_writer", outcome.probes.writer_queued_behind_writer);
    stats.add("probe_reader_blocked_by_queued_writer", outcome.probes.reader_blocked_by_queued_writer);
    stats.add("fault_preempted_inside_critical_section", outcome.probes.preemptions_inside_critical_section);
    stats.add("probe_try_lock_acquisitions", outcome.probes.try_acquisitions);
    stats.add("fault_preempted_after_release", outcome.probes.preemptions_after_release);
    stats.add("probe_failed_try_lock_acquisitions", outcome.probes.failed_try_acquisitions);
    let mut fp = Vec::with_capacity(outcome.grants.len() * 3);
    for g in &outcome.grants {
        fp.extend_from_slice(&[g.0, g.1, g.2]);
    }
    let sc_hash = rng::fnv(serde_json::to_string(&(&sc.flavour, &sc.initial, &sc.tasks)).unwrap().as_bytes());
    stats.mark("scenarios", sc_hash);
    if sc.initial.len() >= 4097 {
        stats.inc("scenarios_with_a_list_longer_than_4096");
    } else if sc.initial.len() >= 65 {
        stats.inc("scenarios_with_a_hub_of_65_or_more");
    }
    stats.mark("interleavings", rng::mix(sc_hash ^ rng::fnv(&fp)));

    let trace = outcome.trace.clone();
    let detail_events = || outcome.events.join(" | ");
    let ret = |v: Option<Violation>| RunOut {
        violation: v,
        trace: trace.clone(),
        mismatch: false,
        branching: outcome.branching.clone(),
    };
    match &outcome.aborted {
        Some((AbortKind::ReplayMismatch, _)) => {
            return RunOut {
                violation: None,
                trace,
                mismatch: true,
                branching: Vec::new(),
            }
        }
        Some((AbortKind::Deadlock, d)) => {
            if only_inv {
                stats.note("deadlock seen (decided under C17)".into());
                return ret(None);
            }
            let ops: Vec<String> = sc
                .tasks
                .iter()
                .zip(&results)
                .map(|(t, r)| t.get(r.len().saturating_sub(1)).map(|o| o.name()).unwrap_or("-").to_string())
                .collect();
            return ret(Some(Violation::new(
                "deadlock",
                format!("{d} [calls in flight: {}] schedule: {}", ops.join(","), detail_events()),
            )));
        }
        Some((AbortKind::Budget, d)) => {
            if only_inv {
                return ret(None);
            }
            return ret(Some(Violation::new("hang", format!("{d}; schedule: {}", detail_events()))));
        }
        None => {}
    }
    // panics
    for (t, obs) in results.iter().enumerate() {
        for (i, o) in obs.iter().enumerate() {
            if let Obs::Panic(m) = o {
                if only_inv {
                    stats.note("panic seen (decided under C17)".into());
                    return ret(None);
                }
                return ret(Some(Violation::new(
                    format!("panic:{}", sc.tasks[t][i].name()),
                    format!("t{t} call #{i} {:?} panicked: {m}; schedule: {}", sc.tasks[t][i], detail_events()),
                )));
            }
        }
    }
    // quiescence: every node answers, invariants hold
    match caught(|| world.check_invariant()) {
        Caught::Ok(Ok(())) => {}
        Caught::Ok(Err(m)) => {
            return ret(Some(Violation::new(
                "quiescent-invariant",
                format!("{m}; schedule: {}", detail_events()),
            )))
        }
        Caught::Panic(m) | Caught::Abort(m) => {
            if only_inv {
                return ret(None);
            }
            return ret(Some(Violation::new(
                "poisoned",
                format!("a node cannot be read after all threads are done: {m}"),
            )));
        }
    }
    if only_inv {
        return ret(None);
    }
    // reads of a quantity that no other task can change must return its sequential value
    if let Some(v) = read_consistency(sc, &m0, &results, stats) {
        return ret(Some(Violation::new(v.class, format!("{}; schedule: {}", v.detail, detail_events()))));
    }
    // a task that no other task can affect (the others only read) must observe exactly what it
    // observes when it runs alone: traversals, orderings, components and exports included
    for t in 0..nt {
        let others_mutate = sc.tasks.iter().enumerate().any(|(t2, s2)| t2 != t && s2.iter().any(|o| o.is_mutation()));
        if others_mutate || sc.tasks[t].is_empty() || results[t].len() != sc.tasks[t].len() {
            continue;
        }
        stats.inc("tasks_compared_with_their_run_alone");
        let alone = run_alone::<F>(sc, t);
        if let Some(i) = (0..alone.len()).find(|i| alone[*i] != results[t][*i]) {
            return ret(Some(Violation::new(
                format!("read-inconsistent:{}", sc.tasks[t][i].name()),
                format!(
                    "t{t} call #{i} {:?} returned {:?} next to tasks that only read, and {:?} when the same calls run alone; schedule: {}",
                    sc.tasks[t][i],
                    results[t][i],
                    alone[i],
                    detail_events()
                ),
            )));
        }
    }
    // a directed traversal reads one side's lists of the nodes it can reach and nothing else:
    // where no call of another task can change those lists (it may well keep their locks busy,
    // writing the other side), the traversal must return what it returns alone
    if F::DIRECTED {
        let mut union: Vec<(usize, usize)> = sc.initial.iter().map(|(u, v, _)| (*u, *v)).collect();
        for o in sc.tasks.iter().flatten() {
            if let Op::Connect { u, v, .. } | Op::TryConnect { u, v, .. } = o {
                union.push((*u, *v));
            }
        }
        for t in 0..nt {
            let others_mutate = sc.tasks.iter().enumerate().any(|(t2, s2)| t2 != t && s2.iter().any(|o| o.is_mutation()));
            if !others_mutate || results[t].len() != sc.tasks[t].len() {
                continue; // (no writer at all: compared as a whole above)
            }
            let mut alone: Option<Vec<Obs>> = None;
            for (i, op) in sc.tasks[t].iter().enumerate() {
                let Op::Search { root, spec } = op else { continue };
                if spec.transpose && matches!(spec.kind, crate::model::SKind::PfsMin | crate::model::SKind::PfsMax) {
                    // which lists a transposed priority-first search walks is a question about
                    // the traversal itself (C08), not about concurrency: not assumed here
                    continue;
                }
                let fwd = !spec.transpose;
                let mut reach = vec![false; sc.prios.len()];
                if *root >= reach.len() {
                    continue;
                }
                reach[*root] = true;
                union.retain(|(a, b)| *a < reach.len() && *b < reach.len());
                loop {
                    let mut grew = false;
                    for (a, b) in &union {
                        let (from, to) = if fwd { (*a, *b) } else { (*b, *a) };
                        if reach[from] && !reach[to] {
                            reach[to] = true;
                            grew = true;
                        }
                    }
                    if !grew {
                        break;
                    }
                }
                let reached = |x: usize| reach.get(x).copied().unwrap_or(false);
                let interferes = sc.tasks.iter().enumerate().any(|(t2, s2)| {
                    t2 != t
                        && s2.iter().any(|o| match o {
                            Op::Connect { u, v, .. } | Op::TryConnect { u, v, .. } => reached(if fwd { *u } else { *v }),
                            Op::Disconnect { u, k, .. } => reached(if fwd { *u } else { *k }),
                            Op::Isolate { u, .. } => reached(*u),
                            _ => false,
                        })
                });
                if interferes {
                    continue;
                }
                let alone = alone.get_or_insert_with(|| run_alone::<F>(sc, t));
                // the task's own earlier changes must have gone the same way
                let same_past = (0..i).all(|j| !sc.tasks[t][j].is_mutation() || alone.get(j) == results[t].get(j));
                if !same_past || alone.len() <= i {
                    continue;
                }
                stats.inc("traversals_no_other_task_can_affect_checked");
                if alone[i] != results[t][i] {
                    return ret(Some(Violation::new(
                        "read-inconsistent:search",
                        format!(
                            "t{t} call #{i} {op:?} returned {:?}, and {:?} when the same calls run alone, although no call of another task can change a list it reads; schedule: {}",
                            results[t][i],
                            alone[i],
                            detail_events()
                        ),
                    )));
                }
            }
        }
    }
    // serialisability of the mutating calls
    let real: Vec<Lists> = (0..world.n()).map(|u| world.lists(u)).collect();
    let muts: Vec<Vec<(Op, Obs)>> = sc
        .tasks
        .iter()
        .zip(&results)
        .map(|(t, r)| {
            t.iter()
                .zip(r.iter())
                .filter(|(op, _)| op.is_mutation())
                .map(|(op, o)| (op.clone(), o.clone()))
                .collect()
        })
        .collect();
    let mut budget = 300_000u64;
    match serialisable(&m0, &muts, &real, &mut budget) {
        Ser::Yes => {
            stats.inc("serialisable");
        }
        Ser::Undecided => {
            stats.inc("serialisability_undecided_budget");
        }
        Ser::No => {
            let rets: Vec<Vec<String>> = muts
                .iter()
                .map(|t| t.iter().map(|(op, o)| format!("{}={:?}", op.name(), o)).collect())
                .collect();
            return ret(Some(Violation::new(
                "not-serialisable",
                format!(
                    "no sequential order of the calls {rets:?} yields the returned values and the final graph {real:?}; schedule: {}",
                    detail_events()
                ),
            )));
        }
    }
    ret(None)
}

#[derive(Clone, Copy, PartialEq)]
enum Side {
    Out,
    In,
    Both,
}

/// which list(s) of which node a query reads
fn read_set(op: &Op, directed: bool) -> Option<(usize, Side)> {
    let s = |side| if directed { side } else { Side::Both };
    Some(match op {
        Op::OutDeg { u } | Op::IsLeaf { u } => (*u, s(Side::Out)),
        Op::InDeg { u } | Op::IsRoot { u } => (*u, s(Side::In)),
        Op::IsOrphan { u } => (*u, Side::Both),
        Op::IsConnected { u, .. } | Op::FindOut { u, .. } => (*u, s(Side::Out)),
        Op::FindIn { u, .. } => (*u, s(Side::In)),
        _ => return None,
    })
}

/// may this mutating call change the given list(s) of node `u`?
fn may_write(op: &Op, u: usize, side: Side, directed: bool) -> bool {
    match op {
        Op::Isolate { .. } => true, // touches every neighbour: conservatively everything
        Op::Connect { u: a, v: b, .. } | Op::TryConnect { u: a, v: b, .. } => {
            if directed {
                (*a == u && side != Side::In) || (*b == u && side != Side::Out)
            } else {
                *a == u || *b == u
            }
        }
        Op::Disconnect { u: a, k, .. } => {
            if directed {
                (*a == u && side != Side::In) || (*k == u && side != Side::Out)
            } else {
                *a == u || *k == u
            }
        }
        _ => false,
    }
}

/// undirected: may this mutating call change the list of edges node `u` CREATED (the half-edges
/// it holds as the calling endpoint of `connect`)? A `connect(x, u)` of another task write-locks
/// `u` and adds to its other list, but leaves the edges `u` created alone - and those are what a
/// serialisation lists under `u`.
fn may_write_created(op: &Op, u: usize) -> bool {
    match op {
        Op::Isolate { .. } => true,
        Op::Connect { u: a, .. } | Op::TryConnect { u: a, .. } => *a == u,
        Op::Disconnect { u: a, k, .. } => *a == u || *k == u,
        _ => false,
    }
}

/// the ordered (directed) or unordered pair of nodes whose edges alone decide the answer
fn pair_read(op: &Op, directed: bool) -> Option<(usize, usize)> {
    match op {
        Op::IsConnected { u, k } | Op::FindOut { u, k } => Some((*u, *k)),
        Op::FindIn { u, k } => Some(if directed { (*k, *u) } else { (*u, *k) }),
        _ => None,
    }
}

/// may this mutating call add or remove an edge from `a` to `b` (directed) or between them?
fn may_write_pair(op: &Op, a: usize, b: usize, directed: bool) -> bool {
    let same = |x: usize, y: usize| (x == a && y == b) || (!directed && x == b && y == a);
    match op {
        Op::Isolate { u, .. } => *u == a || *u == b,
        Op::Connect { u, v, .. } | Op::TryConnect { u, v, .. } => same(*u, *v),
        Op::Disconnect { u, k, .. } => same(*u, *k),
        _ => false,
    }
}

/// A query whose answer depends only on lists that no call of another task can change has one
/// possible answer in every sequential order of the calls: the one after the task's own earlier
/// calls. (Multi-step updates of other tasks cannot excuse a different answer: they do not touch
/// those lists. A reader that falls back to a default when a lock is busy is what this catches.)
fn read_consistency(sc: &ConcSc, m0: &Model, results: &[Vec<Obs>], stats: &mut Stats) -> Option<Violation> {
    let directed = m0.directed;
    for (t, script) in sc.tasks.iter().enumerate() {
        let mut own = m0.clone();
        let mut own_ok = true;
        for (i, op) in script.iter().enumerate() {
            let Some(obs) = results[t].get(i) else { break };
            if op.is_mutation() {
                // own earlier calls: with their recorded results (they only matter for the lists
                // under test when nobody else writes those)
                if own.apply(op, obs).is_err() {
                    own_ok = false;
                }
                continue;
            }
            // a snapshot reads the two lists one after the other: each side on its own
            if let (Op::Snapshot { u } | Op::SnapshotVia { u, .. }, Obs::Lists { out, inn }) = (op, obs) {
                let own_isolates = script[..i].iter().any(|o| matches!(o, Op::Isolate { .. }));
                if *u < own.n && own_ok && !own_isolates {
                    let writes = |side: Side| sc.tasks.iter().enumerate().any(|(t2, s2)| t2 != t && s2.iter().any(|o| o.is_mutation() && may_write(o, *u, side, directed)));
                    let mut bad = None;
                    if directed {
                        if !writes(Side::Out) && *out != own.out(*u) {
                            bad = Some(format!("outgoing list {out:?}, sequential value {:?}", own.out(*u)));
                        }
                        if !writes(Side::In) && *inn != own.inn(*u) {
                            bad = Some(format!("incoming list {inn:?}, sequential value {:?}", own.inn(*u)));
                        }
                        if !writes(Side::Out) || !writes(Side::In) {
                            stats.inc("reads_of_quantities_no_other_task_writes_checked");
                        }
                    } else if !writes(Side::Both) {
                        stats.inc("reads_of_quantities_no_other_task_writes_checked");
                        let mut a = out.clone();
                        a.sort();
                        if a != own.adj(*u) {
                            bad = Some(format!("adjacency {a:?}, sequential value {:?}", own.adj(*u)));
                        }
                    }
                    if let Some(b) = bad {
                        return Some(Violation::new(
                            format!("read-inconsistent:{}", op.name()),
                            format!("t{t} call #{i} {op:?}: {b}, although no call of another task can change that list"),
                        ));
                    }
                }
                continue;
            }
            if let Op::GView { kind } = op {
                let own_isolates = script[..i].iter().any(|o| matches!(o, Op::Isolate { .. }));
                if !own_ok || own_isolates {
                    continue;
                }
                let writes = |u: usize, side: Side| sc.tasks.iter().enumerate().any(|(t2, s2)| t2 != t && s2.iter().any(|o| o.is_mutation() && may_write(o, u, side, directed)));
                let mut bad = None;
                match (kind % 9, obs) {
                    // the container itself is never changed in these scenarios
                    (3 | 8, Obs::Keys(k)) => {
                        stats.inc("container_views_checked");
                        if *k != (0..own.n).collect::<Vec<_>>() {
                            bad = Some(format!("listed the members {k:?}, the container holds 0..{}", own.n));
                        }
                    }
                    (0..=2, Obs::Keys(k)) => {
                        for u in 0..own.n {
                            let side = match (directed, kind % 9) {
                                (true, 0) => Side::In,
                                (true, 1) => Side::Out,
                                _ => Side::Both,
                            };
                            if writes(u, side) {
                                continue;
                            }
                            stats.inc("container_views_checked");
                            let expect = match side {
                                Side::In => own.inn(u).is_empty(),
                                Side::Out => own.out(u).is_empty(),
                                Side::Both => own.incident(u) == 0,
                            };
                            if k.contains(&u) != expect {
                                bad = Some(format!(
                                    "{} node {u} in {k:?}, although no call of another task can change the lists that decide it",
                                    if expect { "omitted" } else { "listed" }
                                ));
                            }
                        }
                    }
                    (6, Obs::Edges(es)) => {
                        for u in 0..own.n {
                            let others_may_change_it = if directed {
                                writes(u, Side::Out)
                            } else {
                                sc.tasks.iter().enumerate().any(|(t2, s2)| t2 != t && s2.iter().any(|o| o.is_mutation() && may_write_created(o, u)))
                            };
                            if others_may_change_it {
                                continue;
                            }
                            stats.inc("container_views_checked");
                            let listed: Vec<(usize, u64)> = es.iter().filter(|e| e.0 == u).map(|e| (e.1, e.2)).collect();
                            if listed != own.out(u) {
                                bad = Some(format!(
                                    "serialised the edges {listed:?} created from node {u}, sequential value {:?}, although no call of another task can change that node's list",
                                    own.out(u)
                                ));
                            }
                        }
                    }
                    (6, Obs::Text(t)) => bad = Some(format!("serialisation did not produce a graph document: {t}")),
                    _ => {}
                }
                if let Some(b) = bad {
                    return Some(Violation::new("read-inconsistent:container_view", format!("t{t} call #{i} {op:?}: {b}")));
                }
                continue;
            }
            let Some((u, side)) = read_set(op, directed) else { continue };
            if u >= own.n {
                continue;
            }
            // a lookup of one neighbour takes the lock once and depends only on the edges between
            // the two nodes: calls of other tasks on other pairs keep the lock busy and reshuffle
            // the list but cannot change the answer
            let others_write = match pair_read(op, directed) {
                Some((a, b)) => {
                    let w = sc.tasks.iter().enumerate().any(|(t2, s2)| t2 != t && s2.iter().any(|o| o.is_mutation() && may_write_pair(o, a, b, directed)));
                    if !w {
                        stats.inc("reads_of_one_pair_no_other_task_writes_checked");
                    }
                    w
                }
                None => sc.tasks.iter().enumerate().any(|(t2, s2)| t2 != t && s2.iter().any(|o| o.is_mutation() && may_write(o, u, side, directed))),
            };
            // own calls whose effect on these lists depends on lists others write (isolate of a
            // neighbour, ...) are not modelled here
            let own_isolates = script[..i].iter().any(|o| matches!(o, Op::Isolate { .. }));
            if others_write || own_isolates || !own_ok {
                continue;
            }
            stats.inc("reads_of_quantities_no_other_task_writes_checked");
            let mut m = own.clone();
            // compare only the side under test for snapshots of a directed node
            if let Err(e) = m.apply(op, obs) {
                return Some(Violation::new(
                    format!("read-inconsistent:{}", op.name()),
                    format!("t{t} call #{i} {op:?} returned {obs:?}, but no call of another task can change what it reads and after t{t}'s own earlier calls {e}"),
                ));
            }
        }
    }
    None
}

fn switches(t: &[u32]) -> usize {
    t.windows(2).filter(|w| w[0] != w[1]).count()
}

impl Conc {
    fn exec<F: SyncFlavour>(&self, sc: &ConcSc, stats: &mut Stats) -> Option<(Violation, ConcSc)>
    where
        F::Node: Send + Sync,
        F::Graph: Send + Sync,
    {
        let only_inv = self.only_invariant.is_some();
        if let Some(f) = &sc.forced {
            let out = run_once::<F>(sc, Rng::new(sc.sched_seed), Some(f.clone()), only_inv, stats);
            return out.violation.map(|v| {
                let mut p = sc.clone();
                p.forced = Some(out.trace);
                (v, p)
            });
        }
        if sc.policy.kind == PolicyKind::Enumerate {
            // every schedule of this (small) scenario, depth first, within a budget; both lock
            // queueing policies
            let mut complete = true;
            for wp in [false, true] {
                let mut sc2 = sc.clone();
                sc2.policy.writer_pref = wp;
                let mut stack: Vec<Vec<u32>> = vec![Vec::new()];
                let mut runs = 0u32;
                while let Some(prefix) = stack.pop() {
                    if runs >= 1200 {
                        complete = false;
                        break;
                    }
                    runs += 1;
                    let plen = prefix.len();
                    let out = run_once::<F>(&sc2, Rng::new(sc.sched_seed), Some(prefix), only_inv, stats);
                    stats.inc("schedules_run");
                    stats.inc("schedules_enumerated");
                    if let Some(v) = out.violation {
                        let mut p = sc2.clone();
                        p.forced = Some(out.trace);
                        p.tries = 1;
                        return Some((v, p));
                    }
                    for i in (plen..out.trace.len().min(out.branching.len())).rev() {
                        for a in &out.branching[i] {
                            if *a != out.trace[i] {
                                let mut child = out.trace[..i].to_vec();
                                child.push(*a);
                                stack.push(child);
                            }
                        }
                    }
                }
            }
            stats.inc(if complete { "scenarios_with_every_schedule_enumerated" } else { "scenarios_enumeration_cut_by_budget" });
            return None;
        }
        for t in 0..sc.tries.max(1) {
            // the pinned scenario carries the effective schedule seed, so that the replay draws
            // the same in-critical-section preemption coins
            let eff = if t == 0 { sc.sched_seed } else { rng::mix(sc.sched_seed ^ (t as u64) << 20) };
            let out = run_once::<F>(sc, Rng::new(eff), None, only_inv, stats);
            stats.inc("schedules_run");
            if let Some(v) = out.violation {
                let mut p = sc.clone();
                p.sched_seed = eff;
                p.forced = Some(out.trace);
                p.tries = 1;
                return Some((v, p));
            }
        }
        None
    }
}

impl Engine for Conc {
    type Sc = ConcSc;

    fn name(&self) -> &'static str {
        "conc"
    }

    fn generate(&self, rng: &mut Rng, tier: Tier) -> ConcSc {
        let flavour = match self.only_invariant {
            Some(true) => "sync_digraph",
            Some(false) => "sync_ungraph",
            None => {
                if rng.coin() {
                    "sync_digraph"
                } else {
                    "sync_ungraph"
                }
            }
        };
        let flavour = match crate::runner::only_flavour() {
            Some(f) if f.starts_with("sync_") && self.only_invariant.is_none() => f,
            _ => flavour.to_string(),
        };
        let directed = flavour.contains("digraph");
        let small = rng.chance(60, 100);
        let n = if small { rng.range(1, 3) } else { rng.range(3, 5) };
        let nt = if small { rng.range(2, 3) } else { rng.range(2, 4) };
        let max_ops = if small { 2 } else if tier == Tier::Quick { 5 } else { 7 };
        let prios: Vec<u32> = (0..n).map(|_| rng.below(3) as u32).collect();
        let mut m = Model::new(directed, n);
        let mut next_edge = 100;
        let mut initial = gen::gen_initial(rng, &mut m, &mut next_edge, if small { 3 } else { 6 });
        let mut cfg = GenCfg {
            hub: None,
            provs: vec![Prov::Own, Prov::Clone],
            w: [25, 15, 22, 8, 18, 6, 6],
        };
        match rng.below(5) {
            0 => cfg.w = [30, 20, 30, 15, 0, 5, 0],   // mutations only
            1 => cfg.w = [10, 5, 30, 15, 25, 10, 5],  // removal-heavy with readers
            2 => cfg.w = [20, 10, 10, 5, 35, 10, 10], // reader-heavy
            _ => {}
        }
        let shared_container = rng.chance(1, 3);
        if shared_container && rng.coin() {
            // handles fetched from the shared container for the call (`get`, indexing)
            cfg.provs = vec![Prov::Own, Prov::Clone, Prov::Get, Prov::Index];
        }
        let mut tasks = Vec::new();
        // a readers-versus-writers template (directed): one task keeps reading one side of a node
        // while others change the OTHER side of the same node, so the node's lock is busy although
        // what is read cannot change
        let template = directed && n >= 2 && rng.chance(1, 8);
        if template {
            let u = rng.below(n);
            let read_in = rng.coin();
            let mut reads = Vec::new();
            for _ in 0..rng.range(1, 3) {
                reads.push(match (read_in, rng.below(5)) {
                    (true, 0) => Op::InDeg { u },
                    (true, 1) => Op::IsRoot { u },
                    (true, 2) => Op::FindIn { u, k: rng.below(n) },
                    (false, 0) => Op::OutDeg { u },
                    (false, 1) => Op::IsLeaf { u },
                    (false, 2) => Op::IsConnected { u, k: rng.below(n) },
                    (_, 3) => Op::Snapshot { u },
                    _ => Op::SnapshotVia { u, style: rng.below(5) as u8 },
                });
            }
            tasks.push(reads);
            for _ in 1..nt {
                let mut w = Vec::new();
                for _ in 0..rng.range(1, 2) {
                    let x = rng.below(n);
                    next_edge += 1;
                    // writers touch only the side that is not read
                    w.push(match (read_in, rng.below(3)) {
                        (true, 0) => Op::Connect { u, v: x, e: next_edge, h: Prov::Own },
                        (true, 1) => Op::TryConnect { u, v: x, e: next_edge, h: Prov::Own },
                        (true, _) => Op::Disconnect { u, k: x, h: Prov::Own },
                        (false, 0) => Op::Connect { u: x, v: u, e: next_edge, h: Prov::Own },
                        (false, 1) => Op::TryConnect { u: x, v: u, e: next_edge, h: Prov::Own },
                        (false, _) => Op::Disconnect { u: x, k: u, h: Prov::Own },
                    });
                }
                tasks.push(w);
            }
        }
        // traversal-versus-writers template (directed): node x is a pure source (or, for
        // transposed traversals, a pure sink), writers only add and remove x's edges, so they keep
        // the locks of the nodes a traversal walks through busy without changing what it reads
        let template2 = directed && !template && n >= 3 && rng.chance(1, 8);
        if template2 {
            let x = n - 1;
            let transposed = rng.chance(1, 3);
            initial.retain(|(u, v, _)| if transposed { *u != x } else { *v != x });
            m.edges.retain(|e| if transposed { e.u != x } else { e.v != x });
            let mut reads = Vec::new();
            for _ in 0..rng.range(1, 2) {
                let mut spec = gen::gen_search_spec(rng, &m, true);
                spec.transpose = transposed;
                reads.push(Op::Search { root: rng.below(n - 1), spec });
            }
            tasks.push(reads);
            for _ in 1..nt {
                let mut w = Vec::new();
                for _ in 0..rng.range(1, 3) {
                    let u = rng.below(n - 1);
                    next_edge += 1;
                    let (a, b) = if transposed { (u, x) } else { (x, u) };
                    w.push(match rng.below(7) {
                        0 | 1 => Op::Connect { u: a, v: b, e: next_edge, h: Prov::Own },
                        2 | 3 => Op::TryConnect { u: a, v: b, e: next_edge, h: Prov::Own },
                        4 | 5 => Op::Disconnect { u: a, k: b, h: Prov::Own },
                        _ => Op::Isolate { u: x, h: Prov::Own },
                    });
                }
                tasks.push(w);
            }
        }
        // hub template: one node with 65-160 neighbours is isolated while other tasks ask about, add
        // and remove single edges of it - an `isolate` that is not one atomic step once a list is
        // long (batches, chunks, a lock released and re-taken) shows as answers no order explains
        let template3 = !template && !template2 && rng.chance(1, 40);
        let mut prios = prios;
        if template3 {
            let spokes = rng.range(65, if tier == Tier::Quick { 140 } else { 300 });
            prios = (0..=spokes).map(|_| rng.below(3) as u32).collect();
            m = Model::new(directed, spokes + 1);
            initial.clear();
            let out_only = rng.coin();
            for x in 1..=spokes {
                next_edge += 1;
                let (a, b) = if out_only || rng.coin() { (0, x) } else { (x, 0) };
                initial.push((a, b, next_edge));
                m.edges.push(crate::model::MEdge { val: next_edge, u: a, v: b });
            }
            tasks.push(vec![Op::Isolate { u: 0, h: Prov::Own }]);
            for _ in 1..nt {
                let mut w = Vec::new();
                for _ in 0..rng.range(2, 3) {
                    let x = rng.range(1, spokes);
                    next_edge += 1;
                    w.push(match rng.below(6) {
                        0 | 1 => Op::TryConnect { u: 0, v: x, e: next_edge, h: Prov::Own },
                        2 => Op::TryConnect { u: x, v: 0, e: next_edge, h: Prov::Own },
                        3 => Op::Disconnect { u: 0, k: x, h: Prov::Own },
                        4 => Op::Disconnect { u: x, k: 0, h: Prov::Own },
                        _ => Op::IsConnected { u: 0, k: x },
                    });
                }
                tasks.push(w);
            }
        }
        // giant-hub template: one node whose list has grown past 4096 entries (parallel edges to a
        // few or to many neighbours) while two or three tasks add, look up and remove single edges
        // of it. Whatever a library does differently once a list is that long - a scan outside the
        // mutation lock with a re-check of "the new part" only, an index built lazily, a chunked
        // walk - has to survive a removal and an addition landing inside its window.
        let template6 = !template && !template2 && !template3 && rng.chance(1, if tier == Tier::Quick { 2500 } else { 2000 });
        let mut window6 = false;
        if template6 {
            let spokes = *rng.pick(&[3usize, 8, 40, 400]);
            let free = rng.range(1, 3);
            let total = rng.range(4097, 4400);
            prios = (0..(1 + spokes + free)).map(|_| rng.below(3) as u32).collect();
            m = Model::new(directed, 1 + spokes + free);
            initial.clear();
            let out_only = rng.coin();
            for i in 0..total {
                next_edge += 1;
                let x = 1 + if i < spokes { i } else { rng.below(spokes) };
                initial.push((0, x, next_edge));
                m.edges.push(crate::model::MEdge { val: next_edge, u: 0, v: x });
            }
            if !out_only {
                for _ in 0..rng.range(1, 300) {
                    next_edge += 1;
                    let x = 1 + rng.below(spokes);
                    initial.push((x, 0, next_edge));
                    m.edges.push(crate::model::MEdge { val: next_edge, u: x, v: 0 });
                }
            }
            window6 = rng.coin();
            if window6 {
                // a window placed on purpose: task 0 makes ONE call that looks the hub's list up
                // and then acts on what it saw; task 1 removes an entry and adds one; the
                // scheduler pauses task 0 at a sampled early decision and lets task 1 run through
                let f = spokes + 1 + rng.below(free);
                let x = rng.range(1, spokes);
                next_edge += 3;
                tasks.push(vec![match rng.below(8) {
                    0..=4 => Op::TryConnect { u: 0, v: f, e: next_edge, h: Prov::Own },
                    5 => Op::TryConnect { u: f, v: 0, e: next_edge, h: Prov::Own },
                    6 => Op::Disconnect { u: 0, k: x, h: Prov::Own },
                    _ => Op::IsConnected { u: 0, k: f },
                }]);
                let first = match rng.below(4) {
                    0..=2 => Op::Disconnect { u: 0, k: rng.range(1, spokes), h: Prov::Own },
                    _ => Op::Isolate { u: rng.range(1, spokes), h: Prov::Own },
                };
                let second = if rng.coin() {
                    Op::TryConnect { u: 0, v: f, e: next_edge - 1, h: Prov::Own }
                } else {
                    Op::Connect { u: 0, v: f, e: next_edge - 1, h: Prov::Own }
                };
                tasks.push(vec![first, second]);
            }
            for _ in 0..(if window6 { nt.saturating_sub(2).min(1) } else { nt }) {
                let mut w = Vec::new();
                for _ in 0..rng.range(1, 3) {
                    let x = rng.range(1, spokes);
                    let f = spokes + 1 + rng.below(free);
                    next_edge += 1;
                    w.push(match rng.below(13) {
                        0..=3 => Op::TryConnect { u: 0, v: f, e: next_edge, h: Prov::Own },
                        4 => Op::TryConnect { u: f, v: 0, e: next_edge, h: Prov::Own },
                        5 | 6 => Op::Disconnect { u: 0, k: x, h: Prov::Own },
                        7 => Op::Disconnect { u: 0, k: f, h: Prov::Own },
                        8 => Op::Connect { u: 0, v: f, e: next_edge, h: Prov::Own },
                        9 => Op::IsConnected { u: 0, k: f },
                        // the hub itself is isolated (a walk over thousands of entries that other
                        // tasks' calls must not be able to cut into), or one of its spokes
                        10 | 11 => Op::Isolate { u: 0, h: Prov::Own },
                        _ => Op::Isolate { u: x, h: Prov::Own },
                    });
                }
                tasks.push(w);
            }
        }
        let template3 = template3 || template6;
        // readers-only template: every task only reads - container views (mostly scc), searches,
        // orderings, snapshots - on one shared container. Whatever a read-only call keeps in the
        // nodes or in the container while it runs (stamps, scratch sets, caches) is then shared
        // by calls that overlap in time; each task must still see what it sees alone.
        let template4 = !template && !template2 && !template3 && rng.chance(1, 25);
        let shared_container = shared_container || template4;
        if template4 {
            for _ in 0..nt {
                let mut r = Vec::new();
                for _ in 0..rng.range(1, 3) {
                    r.push(match rng.below(10) {
                        0..=4 if directed => Op::GView { kind: 5 },
                        0..=5 => Op::GView { kind: rng.below(9) as u8 },
                        6..=8 => {
                            let mut spec = gen::gen_search_spec(rng, &m, true);
                            if !spec.valid(directed) {
                                spec.transpose = false;
                            }
                            Op::Search { root: rng.below(n), spec }
                        }
                        _ => Op::Snapshot { u: rng.below(n) },
                    });
                }
                tasks.push(r);
            }
        }
        // views-versus-creators template: one task serialises the shared container (or asks for
        // roots / leaves / orphans) while the others only CREATE edges from one node x. Every other
        // node's own list of created (directed: outgoing) edges is then fixed although its lock is
        // busy, and what a serialisation lists under it has one possible value.
        let template5 = !template && !template2 && !template3 && !template4 && n >= 2 && rng.chance(1, 20);
        let shared_container = shared_container || template5;
        if template5 {
            let x = rng.below(n);
            let mut r = Vec::new();
            for _ in 0..rng.range(1, 2) {
                r.push(Op::GView { kind: *rng.pick(&[6u8, 6, 6, 0, 1, 2]) });
            }
            tasks.push(r);
            for _ in 1..nt {
                let mut w = Vec::new();
                for _ in 0..rng.range(1, 3) {
                    next_edge += 1;
                    let y = rng.below(n);
                    w.push(if rng.chance(2, 3) {
                        Op::Connect { u: x, v: y, e: next_edge, h: Prov::Own }
                    } else {
                        Op::TryConnect { u: x, v: y, e: next_edge, h: Prov::Own }
                    });
                }
                tasks.push(w);
            }
        }
        for _ in 0..(if template || template2 || template3 || template4 || template5 { 0 } else { nt }) {
            let k = rng.range(1, max_ops);
            let mut script = Vec::new();
            for _ in 0..k {
                // tasks are generated against the initial state: concurrent histories have no
                // single "current" state to bias by
                let mut op = if shared_container && rng.chance(1, 8) {
                    Op::GView { kind: rng.below(9) as u8 }
                } else {
                    gen::gen_op(rng, &m, &mut next_edge, &cfg)
                };
                if let Op::Search { spec, .. } = &mut op {
                    if !spec.valid(directed) {
                        spec.transpose = false;
                    }
                }
                if let Op::Snapshot { u } = &op {
                    if rng.coin() {
                        op = Op::SnapshotVia { u: *u, style: rng.below(5) as u8 };
                    }
                }
                script.push(op);
            }
            tasks.push(script);
        }
        // (a hub scenario is short in calls but not in lock points: never enumerated)
        let tiny = !template3 && !template4 && tasks.len() <= 3 && tasks.iter().map(|t| t.len()).sum::<usize>() <= 3;
        let kind = match rng.below(10) {
            _ if tiny && rng.chance(1, if tier == Tier::Quick { 150 } else { 60 }) => PolicyKind::Enumerate,
            _ if window6 => PolicyKind::PauseAt { at: rng.range(2, 9) as u32 },
            _ if template3 => if rng.coin() { PolicyKind::Uniform } else { PolicyKind::Sticky { num: 50 } },
            0..=3 => PolicyKind::Uniform,
            4..=5 => PolicyKind::Pct { d: rng.range(1, 3) as u32 },
            6..=8 => PolicyKind::Sticky { num: *rng.pick(&[5u32, 10, 25, 50]) },
            _ => PolicyKind::Serial,
        };
        ConcSc {
            flavour,
            prios,
            hash_seed: rng.next_u64(),
            initial,
            tasks,
            policy: Policy {
                kind,
                writer_pref: rng.chance(2, 3),
                preempt_in_cs: template || template2 || template5 || rng.chance(1, 3),
                preempt_at_release: rng.chance(1, 4),
            },
            sched_seed: rng.next_u64(),
            tries: 1,
            forced: None,
            shared_container,
        }
    }

    fn execute(&self, sc: &ConcSc, stats: &mut Stats) -> Option<(Violation, ConcSc)> {
        stats.inc(&format!("runs_{}", sc.flavour));
        match sc.flavour.as_str() {
            "sync_digraph" => self.exec::<crate::flavour::SyncDi>(sc, stats),
            "sync_ungraph" => self.exec::<crate::flavour::SyncUn>(sc, stats),
            f => panic!("conc engine needs a sync flavour, got {f}"),
        }
    }

    fn shrink(&self, sc: &ConcSc) -> Vec<ConcSc> {
        let mut out = Vec::new();
        let fresh = |mut c: ConcSc| {
            c.forced = None;
            // (a placed pause leaves the schedule little freedom, and a scenario with a list of
            // thousands of entries is expensive to re-run: few fresh schedules per candidate)
            c.tries = if matches!(c.policy.kind, PolicyKind::PauseAt { .. }) || c.initial.len() > 1000 { 8 } else { 120 };
            if c.policy.kind == PolicyKind::Enumerate {
                c.policy.kind = PolicyKind::Uniform;
            }
            c
        };
        // drop a whole task
        if sc.tasks.len() > 1 {
            for t in 0..sc.tasks.len() {
                let mut c = sc.clone();
                c.tasks.remove(t);
                out.push(fresh(c));
            }
        }
        // drop single operations
        for t in 0..sc.tasks.len() {
            for i in 0..sc.tasks[t].len() {
                if sc.tasks[t].len() > 1 {
                    let mut c = sc.clone();
                    c.tasks[t].remove(i);
                    out.push(fresh(c));
                }
            }
        }
        for init in gen::shrink_vec(&sc.initial, 30) {
            let mut c = sc.clone();
            c.initial = init;
            out.push(fresh(c));
        }
        for k in (0..sc.prios.len()).rev() {
            if sc.prios.len() > 1 {
                let tasks: Option<Vec<Vec<Op>>> = sc.tasks.iter().map(|t| gen::remap_ops(t, k)).collect();
                if let (Some(tasks), Some(init)) = (tasks, gen::remap_edges(&sc.initial, k)) {
                    let mut c = sc.clone();
                    c.prios.remove(k);
                    c.tasks = tasks;
                    c.initial = init;
                    out.push(fresh(c));
                }
            }
        }
        // simplify operations: queries and traversals to the cheapest query
        for t in 0..sc.tasks.len() {
            for i in 0..sc.tasks[t].len() {
                let op = &sc.tasks[t][i];
                if !op.is_mutation() && !matches!(op, Op::OutDeg { .. }) {
                    let mut c = sc.clone();
                    c.tasks[t][i] = Op::OutDeg { u: op.subject() };
                    out.push(fresh(c));
                }
                if op.prov() != Prov::Own {
                    let mut c = sc.clone();
                    c.tasks[t][i] = gen::plain_prov(op);
                    out.push(fresh(c));
                }
            }
        }
        if sc.shared_container && !sc.tasks.iter().flatten().any(|o| matches!(o, Op::GView { .. })) {
            let mut c = sc.clone();
            c.shared_container = false;
            out.push(fresh(c));
        }
        // schedule: fewer preemptions
        if let Some(f) = &sc.forced {
            for i in 1..f.len() {
                if f[i] != f[i - 1] {
                    let mut c = sc.clone();
                    c.forced = Some(f[..i].to_vec());
                    out.push(c);
                    let mut c = sc.clone();
                    let mut g = f.clone();
                    g[i] = g[i - 1];
                    c.forced = Some(g);
                    out.push(c);
                }
            }
            if sc.policy.preempt_at_release {
                let mut c = sc.clone();
                c.policy.preempt_at_release = false;
                c.forced = None;
                c.tries = 120;
                out.push(c);
            }
            if sc.policy.preempt_in_cs {
                let mut c = sc.clone();
                c.policy.preempt_in_cs = false;
                c.forced = None;
                c.tries = 120;
                out.push(c);
            }
            if !sc.policy.writer_pref {
                // nothing
            } else {
                let mut c = sc.clone();
                c.policy.writer_pref = false;
                out.push(c);
            }
        }
        out
    }

    fn size(&self, sc: &ConcSc) -> usize {
        let ops: usize = sc.tasks.iter().map(|t| t.len()).sum();
        let weight: usize = sc
            .tasks
            .iter()
            .flatten()
            .map(|o| match o {
                Op::OutDeg { .. } => 0,
                o if o.is_mutation() => (o.prov() != Prov::Own) as usize + 1,
                _ => 2,
            })
            .sum();
        ops * 100
            + sc.tasks.len() * 50
            + sc.initial.len() * 20
            + sc.prios.len() * 10
            + weight * 3
            + sc.forced.as_ref().map(|f| switches(f)).unwrap_or(0)
            + sc.policy.writer_pref as usize
            + sc.policy.preempt_in_cs as usize * 2
            + sc.policy.preempt_at_release as usize * 2
            + sc.shared_container as usize
    }
}
