//! C20: operations injected between the steps of an edge loop or from inside
//! a traversal closure. The simulator decides at every step which pending
//! script entries fire; the lock seam (sync flavours) reports a guard kept
//! across a step as a self-deadlock instead of hanging.

use crate::flavour::{Flavour, SearchOut};
use crate::gen;
use crate::locks::{caught, Caught, SimAbort, Solo};
use crate::model::{Closure, MEdge, Model, Obs, Op, Prov, SKind, SMode, SearchSpec};
use crate::payload::NVal;
use crate::rng::Rng;
use crate::runner::{Engine, Stats, Tier, Violation};
use crate::world::World;
use crate::{hashseam, with_flavour};
use serde::{Deserialize, Serialize};
use std::cell::RefCell;
use std::collections::BTreeSet;

#[derive(Clone, Debug, Serialize, Deserialize, PartialEq)]
pub enum Host {
    IterOut { u: usize },
    IterIn { u: usize },
    IterInto { u: usize },
    Search { root: usize, spec: SearchSpec },
    /// an edge walk driven through iterator adaptors: dir 0 out / 1 in / 2 `(&node).into_iter()`;
    /// style 1 asks size_hint() around every next(), 2 `.map(body).collect()`, 3 `for_each`,
    /// 4 `try_for_each`, 5 `step_by(2)`, 6 `skip(1)`, 7 `next` then `fold`, 8 `nth(0)` then `last`
    Adapted { u: usize, dir: u8, style: u8 },
    /// `to_dot_with_attr` of a container of all nodes: the edge-attribute callback runs inside
    /// the library's loop over each member's edges, the node-attribute callback inside its loop
    /// over the members; the script fires from both
    Dot,
}

/// operand: an absolute node, or an endpoint of the edge under the cursor
#[derive(Clone, Copy, Debug, Serialize, Deserialize, PartialEq)]
pub enum T {
    Abs(usize),
    YSrc,
    YDst,
}

#[derive(Clone, Debug, Serialize, Deserialize, PartialEq)]
pub enum InjOp {
    Connect { u: T, v: T, e: u64, h: Prov },
    TryConnect { u: T, v: T, e: u64, h: Prov },
    Disconnect { u: T, k: T, h: Prov },
    Isolate { u: T, h: Prov },
    Query { kind: u8, u: T, k: T },
    /// iterate another (or the same) node's edges completely, nested
    NestedIter { u: T },
    NestedSearch { root: T, spec: SearchSpec },
    GInsertNew { key: usize },
    GRemove { u: T },
    GReinsert { u: T },
    GGet { u: T },
    GToVec,
    /// another read-only container call: 0 roots, 1 leaves, 2 orphans, 4 to_dot, 5 scc, 6 serialise, 8 iter
    GView { kind: u8 },
}

#[derive(Clone, Debug, Serialize, Deserialize)]
pub struct InjSc {
    pub flavour: String,
    pub prios: Vec<u32>,
    pub in_graph: bool,
    pub hash_seed: u64,
    pub initial: Vec<(usize, usize, u64)>,
    pub host: Host,
    pub script: Vec<InjOp>,
    /// fire[i] = number of pending script entries executed at step i
    pub fire: Vec<u8>,
    /// an operation that adds no edge, executed at EVERY step (the traversal must still end)
    #[serde(default)]
    pub every_step: Option<InjOp>,
    /// the container holds the ONLY handle of every node but the host's; the script's `GRemove`
    /// entries isolate a node and remove it from the container, so that it is released while
    /// the loop or traversal is still running
    #[serde(default)]
    pub sole: bool,
}

pub struct Inject;

struct Ctx<'a, F: Flavour> {
    world: &'a World<F>,
    graph: Option<F::Graph>,
    members: BTreeSet<usize>,
    extra_nodes: Vec<F::Node>,
    model: Model,
    sc: &'a InjSc,
    next: usize,
    step: usize,
    steps_after_script: usize,
    bound: Option<usize>,
    violation: Option<Violation>,
    transposed: bool,
    stats: Stats,
}

fn resolve(t: T, y: (usize, usize)) -> usize {
    match t {
        T::Abs(x) => x,
        T::YSrc => y.0,
        T::YDst => y.1,
    }
}

impl<'a, F: Flavour> Ctx<'a, F> {
    fn concrete(&self, op: &InjOp, y: (usize, usize)) -> Option<Op> {
        let n = self.world.n();
        let ok = |x: usize| x < n;
        Some(match op {
            InjOp::Connect { u, v, e, h } => {
                let (u, v) = (resolve(*u, y), resolve(*v, y));
                if !ok(u) || !ok(v) {
                    return None;
                }
                Op::Connect { u, v, e: *e, h: *h }
            }
            InjOp::TryConnect { u, v, e, h } => {
                let (u, v) = (resolve(*u, y), resolve(*v, y));
                if !ok(u) || !ok(v) {
                    return None;
                }
                Op::TryConnect { u, v, e: *e, h: *h }
            }
            InjOp::Disconnect { u, k, h } => {
                let u = resolve(*u, y);
                if !ok(u) {
                    return None;
                }
                Op::Disconnect { u, k: resolve(*k, y), h: *h }
            }
            InjOp::Isolate { u, h } => {
                let u = resolve(*u, y);
                if !ok(u) {
                    return None;
                }
                Op::Isolate { u, h: *h }
            }
            InjOp::Query { kind, u, k } => {
                let u = resolve(*u, y);
                let k = resolve(*k, y);
                if !ok(u) {
                    return None;
                }
                if F::DIRECTED {
                    match kind % 8 {
                        0 => Op::OutDeg { u },
                        1 => Op::InDeg { u },
                        2 => Op::IsRoot { u },
                        3 => Op::IsLeaf { u },
                        4 => Op::IsOrphan { u },
                        5 => Op::IsConnected { u, k },
                        6 => Op::FindOut { u, k },
                        _ => Op::FindIn { u, k },
                    }
                } else {
                    match kind % 4 {
                        0 => Op::OutDeg { u },
                        1 => Op::IsOrphan { u },
                        2 => Op::IsConnected { u, k },
                        _ => Op::FindOut { u, k },
                    }
                }
            }
            InjOp::NestedIter { u } => {
                let u = resolve(*u, y);
                if !ok(u) {
                    return None;
                }
                Op::Snapshot { u }
            }
            InjOp::NestedSearch { root, spec } => {
                let root = resolve(*root, y);
                if !ok(root) {
                    return None;
                }
                Op::Search { root, spec: spec.clone() }
            }
            _ => return None,
        })
    }

    /// executes pending script entries due at this step; `y` = keys of the
    /// edge under the cursor
    fn fire(&mut self, y: (usize, usize)) {
        let due = self.sc.fire.get(self.step).copied().unwrap_or(0) as usize;
        for _ in 0..due {
            if self.next >= self.sc.script.len() || self.violation.is_some() {
                break;
            }
            let iop = self.sc.script[self.next].clone();
            self.next += 1;
            self.fire_one(iop, y);
        }
        if self.violation.is_none() {
            if let Some(iop) = self.sc.every_step.clone() {
                self.stats.inc("injected_every_step_ops");
                self.fire_one(iop, y);
            }
        }
    }

    fn fire_one(&mut self, iop: InjOp, y: (usize, usize)) {
        {
            self.stats.inc("injected_ops");
            match &iop {
                InjOp::GInsertNew { key } => {
                    if let Some(g) = self.graph.as_mut() {
                        let node = F::node_new(*key, NVal::new(1, *key as u64));
                        let r = match caught(|| F::g_insert(g, node.clone())) {
                            Caught::Ok(r) => r,
                            Caught::Panic(m) | Caught::Abort(m) => {
                                self.violation = Some(Violation::new("panic-injected:insert", m));
                                return;
                            }
                        };
                        let expect = !self.members.contains(key);
                        if r != expect {
                            self.violation = Some(Violation::new(
                                "effect-inside-loop:insert",
                                format!("insert of key {key} inside the loop returned {r}, members {:?}", self.members),
                            ));
                            return;
                        }
                        if r {
                            self.members.insert(*key);
                            self.extra_nodes.push(node);
                        }
                    }
                    return;
                }
                InjOp::GRemove { u } | InjOp::GReinsert { u } | InjOp::GGet { u } => {
                    let k = resolve(*u, y);
                    if let Some(g) = self.graph.as_mut() {
                        let res = caught(|| match &iop {
                            InjOp::GRemove { .. } => F::g_remove(g, k).map(|n| F::key(&n)),
                            InjOp::GReinsert { .. } => {
                                if k < self.world.nodes.len() {
                                    Some(F::g_insert(g, self.world.nodes[k].clone()) as usize)
                                } else {
                                    None
                                }
                            }
                            _ => F::g_get(g, k).map(|n| F::key(&n)),
                        });
                        let got = match res {
                            Caught::Ok(r) => r,
                            Caught::Panic(m) | Caught::Abort(m) => {
                                self.violation = Some(Violation::new("panic-injected:container", m));
                                return;
                            }
                        };
                        let member = self.members.contains(&k);
                        let want = match &iop {
                            InjOp::GRemove { .. } => {
                                if member {
                                    self.members.remove(&k);
                                    Some(k)
                                } else {
                                    None
                                }
                            }
                            InjOp::GReinsert { .. } => {
                                if k < self.world.nodes.len() {
                                    let r = !member;
                                    self.members.insert(k);
                                    Some(r as usize)
                                } else {
                                    None
                                }
                            }
                            _ => {
                                if member {
                                    Some(k)
                                } else {
                                    None
                                }
                            }
                        };
                        if got != want {
                            self.violation = Some(Violation::new(
                                "effect-inside-loop:container",
                                format!("{iop:?} (key {k}) inside the loop returned {got:?}, map model says {want:?}"),
                            ));
                            return;
                        }
                    }
                    return;
                }
                InjOp::GView { kind } => {
                    if self.graph.is_some() {
                        // (run on the harness's own container of the same nodes)
                        let w = World::<F> { nodes: Vec::new(), graph: self.graph.take() };
                        let r = caught(|| w.exec_raw(&Op::GView { kind: *kind }));
                        self.graph = w.graph;
                        if let Caught::Panic(m) | Caught::Abort(m) = r {
                            self.violation = Some(Violation::new("panic-injected:container", format!("container view {kind} inside {:?}: {m}", self.sc.host)));
                        }
                    }
                    return;
                }
                InjOp::GToVec => {
                    if let Some(g) = self.graph.as_ref() {
                        let got: BTreeSet<usize> = match caught(|| F::g_to_vec(g).iter().map(|n| F::key(n)).collect()) {
                            Caught::Ok(r) => r,
                            Caught::Panic(m) | Caught::Abort(m) => {
                                self.violation = Some(Violation::new("panic-injected:container", m));
                                return;
                            }
                        };
                        if got != self.members {
                            self.violation = Some(Violation::new(
                                "effect-inside-loop:container",
                                format!("to_vec inside the loop lists {got:?}, members {:?}", self.members),
                            ));
                            return;
                        }
                    }
                    return;
                }
                _ => {}
            }
            let Some(op) = self.concrete(&iop, y) else {
                self.stats.inc("injected_ops_skipped_operand_out_of_range");
                return;
            };
            if let Op::Disconnect { u, k, .. } = &op {
                if (*u, *k) == y || (!F::DIRECTED && (*k, *u) == y) {
                    self.stats.inc("probe_removed_edge_under_cursor");
                }
            }
            if let Op::Isolate { u, .. } = &op {
                if *u == y.0 || *u == y.1 {
                    self.stats.inc("probe_isolated_endpoint_of_yielded_edge");
                }
            }
            if let Op::Connect { u, .. } = &op {
                if *u == y.0 {
                    self.stats.inc("probe_appended_to_list_being_walked");
                }
            }
            let obs = self.world.exec(&op);
            self.stats.inc(&format!("inj_{}", op.name()));
            match &obs {
                Obs::Panic(m) => {
                    self.violation = Some(Violation::new(
                        format!("panic-injected:{}", op.name()),
                        format!("{op:?} called at step {} of {:?} panicked: {m}", self.step, self.sc.host),
                    ));
                    return;
                }
                Obs::Abort(m) => {
                    self.violation = Some(Violation::new(
                        format!("deadlock-injected:{}", op.name()),
                        format!("{op:?} called at step {} of {:?} cannot return: {m}", self.step, self.sc.host),
                    ));
                    return;
                }
                _ => {}
            }
            if let Op::Search { .. } = op {
                return;
            }
            let pre = self.model.clone();
            if let Err(m) = self.model.apply(&op, &obs) {
                self.violation = Some(Violation::new(
                    format!("effect-inside-loop:{}", op.name()),
                    format!("{op:?} at step {} of {:?} in state {:?}: {m}", self.step, self.sc.host, pre.edges),
                ));
                return;
            }
        }
    }

    /// oracle + injection for one yielded edge; returns false when the loop
    /// must be cut (violation or step budget)
    fn on_yield(&mut self, a: usize, b: usize, e: u64, expect_end: Option<(usize, usize)>) -> bool {
        self.stats.inc("steps");
        // the edge must exist now, with its true endpoints and value
        let live = if F::DIRECTED {
            let (s, t) = if self.transposed { (b, a) } else { (a, b) };
            let exact = self.model.edges.iter().any(|x| x.u == s && x.v == t && x.val == e);
            if !exact && expect_end.is_none() {
                // a traversal closure: which direction a stored edge is followed and reported in is
                // C08's statement (not decided by this technique); here the edge must exist now
                let any = self.model.edges.iter().any(|x| x.u == t && x.v == s && x.val == e);
                if any {
                    self.stats.inc("search_yield_with_unexpected_orientation_C08_not_a_C20_verdict");
                }
                any
            } else {
                exact
            }
        } else {
            self.model
                .edges
                .iter()
                .any(|x| ((x.u == a && x.v == b) || (x.u == b && x.v == a)) && x.val == e)
        };
        if !live && self.stats.get("injected_ops") == 0 {
            // nothing has been injected yet: a wrong report on a frozen graph is C07/C08's
            // business (not decided by this technique), not a re-entrancy matter
            self.stats.inc("frozen_graph_wrong_yield_not_a_C20_verdict");
            self.stats.note(format!("{:?} reports ({a},{b},e{e}) on a frozen graph where no such edge exists (outside C20)", self.sc.host));
        } else if !live {
            self.violation = Some(Violation::new(
                "yielded-dead-edge",
                format!(
                    "step {} of {:?} yielded ({a},{b},e{e}) which is not a live edge now (live: {:?})",
                    self.step, self.sc.host, self.model.edges
                ),
            ));
            return false;
        }
        if let Some((pos, key)) = expect_end {
            let got = if pos == 0 { a } else { b };
            if got != key {
                self.violation = Some(Violation::new(
                    "yielded-dead-edge",
                    format!(
                        "step {} of {:?} yielded ({a},{b},e{e}): the iterated node {key} is not its {} endpoint",
                        self.step,
                        self.sc.host,
                        if pos == 0 { "first" } else { "second" }
                    ),
                ));
                return false;
            }
        }
        let had_pending = self.next < self.sc.script.len() && self.step < self.sc.fire.len();
        self.fire((a, b));
        self.step += 1;
        if self.violation.is_some() {
            return false;
        }
        if !had_pending {
            self.steps_after_script += 1;
            // once the closure stops adding edges the loop must end: every node is
            // expanded at most once and every listing visited at most once
            // fixed when the plan ran out: afterwards only operations that add no edge fire, so
            // the listings that exist at that moment bound what is left to visit
            let now = 16 * (2 * self.model.edges.len() + self.world.n()) + 64;
            let bound = *self.bound.get_or_insert(now);
            if self.steps_after_script > bound {
                self.violation = Some(Violation::new(
                    "non-termination",
                    format!(
                        "{:?} is still running {} steps after the last injected operation (bound {bound})",
                        self.sc.host, self.steps_after_script
                    ),
                ));
                return false;
            }
        }
        true
    }
}

fn run_host<F: Flavour>(sc: &InjSc, with_script: bool, stats: &mut Stats) -> (Option<Violation>, Option<String>) {
    let world = World::<F>::new(&sc.prios, sc.in_graph);
    let mut model = Model::new(F::DIRECTED, sc.prios.len());
    world.seed_edges(&sc.initial);
    for (u, v, e) in &sc.initial {
        model.edges.push(MEdge { val: *e, u: *u, v: *v });
    }
    let mut graph = None;
    let mut members = BTreeSet::new();
    if sc.in_graph {
        let mut g = F::g_new();
        for n in &world.nodes {
            F::g_insert(&mut g, n.clone());
            members.insert(F::key(n));
        }
        graph = Some(g);
    }
    let empty = InjSc {
        script: Vec::new(),
        fire: Vec::new(),
        every_step: None,
        ..sc.clone()
    };
    let transposed = match &sc.host {
        Host::Search { spec, .. } => spec.transpose,
        _ => false,
    };
    let ctx = RefCell::new(Ctx::<F> {
        world: &world,
        graph,
        members,
        extra_nodes: Vec::new(),
        model,
        sc: if with_script { sc } else { &empty },
        next: 0,
        step: 0,
        steps_after_script: 0,
        bound: None,
        violation: None,
        transposed,
        stats: Stats::default(),
    });
    // handles taken before the loop, and handles obtained during it (endpoints of yielded edges)
    let before: Vec<F::Node> = world.nodes.iter().map(|n| n.clone()).collect();
    let kept: RefCell<Vec<(F::Node, usize)>> = RefCell::new(Vec::new());
    let keep = |n: &F::Node| {
        let mut k = kept.borrow_mut();
        if k.len() < 64 {
            k.push((n.clone(), F::key(n)));
        }
    };
    let res = caught(|| match &sc.host {
        Host::IterOut { u } => F::for_out(&world.nodes[*u], &mut |a, b, e| {
            keep(&a);
            keep(&b);
            ctx.borrow_mut().on_yield(F::key(&a), F::key(&b), e.0, Some((0, *u)))
        }),
        Host::IterIn { u } => F::for_in(&world.nodes[*u], &mut |a, b, e| {
            ctx.borrow_mut()
                .on_yield(F::key(&a), F::key(&b), e.0, Some((if F::DIRECTED { 1 } else { 0 }, *u)))
        }),
        Host::IterInto { u } => F::for_into(&world.nodes[*u], &mut |a, b, e| {
            ctx.borrow_mut().on_yield(F::key(&a), F::key(&b), e.0, Some((0, *u)))
        }),
        Host::Dot => {
            if let Some(g) = world.graph.as_ref() {
                let _ = F::g_to_dot_cb(
                    g,
                    &|n| {
                        keep(n);
                        // a node statement: no edge under the cursor; the script may still fire
                        let k = F::key(n);
                        let mut c = ctx.borrow_mut();
                        c.stats.inc("steps");
                        c.fire((k, k));
                        c.step += 1;
                        if c.violation.is_some() {
                            drop(c);
                            std::panic::resume_unwind(Box::new(SimAbort("cut".into())));
                        }
                    },
                    &|a, b, e| {
                        keep(a);
                        keep(b);
                        let go = ctx.borrow_mut().on_yield(F::key(a), F::key(b), e.0, None);
                        if !go {
                            std::panic::resume_unwind(Box::new(SimAbort("cut".into())));
                        }
                    },
                );
            }
        }
        Host::Adapted { u, dir, style } => {
            let pos = if F::DIRECTED && *dir == 1 { 1 } else { 0 };
            F::for_adapted(&world.nodes[*u], *dir, *style, &mut |a, b, e| {
                ctx.borrow_mut().on_yield(F::key(&a), F::key(&b), e.0, Some((pos, *u)))
            })
        }
        Host::Search { root, spec } => {
            let mask = spec.mask;
            let out = F::search(&world.nodes[*root], spec, &mut |a, b, e| {
                keep(a);
                keep(b);
                let go = ctx.borrow_mut().on_yield(F::key(a), F::key(b), e.0, None);
                if !go {
                    // cut the traversal short: unwind through the library
                    std::panic::resume_unwind(Box::new(SimAbort("cut".into())));
                }
                mask & (1 << (e.0 % 16)) == 0
            });
            // results keep their nodes usable
            match out {
                SearchOut::Node(Some(n)) => {
                    let _ = F::out_degree(&n);
                }
                SearchOut::Path(Some(p)) | SearchOut::Edges(p) => {
                    for (a, b, _) in &p {
                        let _ = (F::key(a), F::out_degree(b));
                    }
                }
                SearchOut::Nodes(v) => {
                    for n in &v {
                        let _ = F::out_degree(n);
                    }
                }
                _ => {}
            }
        }
    });
    let mut ctx = ctx.into_inner();
    stats.merge(std::mem::take(&mut ctx.stats));
    if let Some(v) = ctx.violation.take() {
        return (Some(v), None);
    }
    match res {
        Caught::Ok(()) => {}
        Caught::Panic(m) => return (None, Some(format!("panic: {m}"))),
        Caught::Abort(m) => return (None, Some(format!("abort: {m}"))),
    }
    stats.add("script_entries_never_fired", (ctx.sc.script.len() - ctx.next) as u64);
    // after the loop: the graph is the model after exactly the injected operations,
    // seen through the handles taken before the loop
    // handles obtained during the loop still address the nodes they named
    for (h, k) in kept.borrow().iter() {
        let ok = caught(|| F::key(h) == *k && F::out_degree(h) == F::out_degree(&world.nodes[*k]) && F::vid(h) == F::vid(&world.nodes[*k]));
        if !matches!(ok, Caught::Ok(true)) {
            return (
                Some(Violation::new(
                    "handle-invalidated",
                    format!("a handle of node {k} obtained from a yielded edge during {:?} no longer addresses that node", sc.host),
                )),
                None,
            );
        }
    }
    let w2 = World::<F> {
        nodes: before,
        graph: None,
    };
    match caught(|| w2.compare_with(&ctx.model).and_then(|_| w2.check_invariant_level(if w2.n() > 64 { 1 } else { 2 }))) {
        Caught::Ok(Ok(())) => (None, None),
        Caught::Ok(Err(m)) => (
            Some(Violation::new(
                "effect-after-loop",
                format!("after {:?} with script {:?}: {m}", sc.host, sc.script),
            )),
            None,
        ),
        Caught::Panic(m) | Caught::Abort(m) => (
            Some(Violation::new(
                "effect-after-loop",
                format!("after {:?}: the graph cannot be read back: {m}", sc.host),
            )),
            None,
        ),
    }
}

/// The host runs on a graph whose nodes (all but the host's own) are held by the container alone;
/// the loop body fetches a node from the container, isolates it, removes it and lets go of it.
fn run_sole<F: Flavour>(sc: &InjSc, stats: &mut Stats) -> Option<Violation> {
    let hu = match &sc.host {
        Host::IterOut { u } | Host::IterIn { u } | Host::IterInto { u } | Host::Adapted { u, .. } => *u,
        Host::Search { root, .. } => *root,
        Host::Dot => return None,
    };
    let world = World::<F>::new(&sc.prios, true);
    world.seed_edges(&sc.initial);
    let mut model = Model::new(F::DIRECTED, sc.prios.len());
    for (u, v, e) in &sc.initial {
        model.edges.push(MEdge { val: *e, u: *u, v: *v });
    }
    let World { nodes, graph } = world;
    let root = nodes[hu].clone();
    drop(nodes);
    let graph = RefCell::new(graph.expect("container"));
    let model = RefCell::new(model);
    let removed: RefCell<BTreeSet<usize>> = RefCell::new(BTreeSet::new());
    let step = RefCell::new(0usize);
    let next = RefCell::new(0usize);
    let verdict: RefCell<Option<Violation>> = RefCell::new(None);
    let bound = 16 * (2 * sc.initial.len() + sc.prios.len()) + 64;
    let on_yield = |a: usize, b: usize, e: u64| -> bool {
        let i = *step.borrow();
        *step.borrow_mut() += 1;
        if i > bound {
            *verdict.borrow_mut() = Some(Violation::new(
                "non-termination",
                format!("{:?} is still running after {i} steps although its body only removes nodes (bound {bound})", sc.host),
            ));
            return false;
        }
        if !model.borrow().edges.iter().any(|x| x.val == e && ((x.u == a && x.v == b) || (x.u == b && x.v == a))) {
            *verdict.borrow_mut() = Some(Violation::new(
                "yielded-dead-edge",
                format!("step {i} of {:?} yielded ({a},{b},{e}), which does not exist at that moment (nodes removed so far: {:?})", sc.host, removed.borrow()),
            ));
            return false;
        }
        let k = sc.fire.get(i).copied().unwrap_or(0);
        for _ in 0..k {
            let j = *next.borrow();
            *next.borrow_mut() += 1;
            let Some(InjOp::GRemove { u }) = sc.script.get(j) else { continue };
            let key = resolve(*u, (a, b));
            if key == hu || key >= sc.prios.len() || removed.borrow().contains(&key) {
                continue;
            }
            let h = F::g_get(&graph.borrow(), key);
            if let Some(h) = h {
                F::isolate(&h);
                drop(h);
                let r = F::g_remove(&mut graph.borrow_mut(), key);
                drop(r);
                let _ = model.borrow_mut().apply(&Op::Isolate { u: key, h: Prov::Own }, &Obs::Unit);
                removed.borrow_mut().insert(key);
                stats_inc_sole();
            }
        }
        true
    };
    let cut = || std::panic::resume_unwind(Box::new(SimAbort("cut".into())));
    let res = caught(|| match &sc.host {
        Host::IterOut { .. } => F::for_out(&root, &mut |a, b, e| on_yield(F::key(&a), F::key(&b), e.0)),
        Host::IterIn { .. } => F::for_in(&root, &mut |a, b, e| on_yield(F::key(&a), F::key(&b), e.0)),
        Host::IterInto { .. } => F::for_into(&root, &mut |a, b, e| on_yield(F::key(&a), F::key(&b), e.0)),
        Host::Adapted { dir, style, .. } => F::for_adapted(&root, *dir, *style, &mut |a, b, e| on_yield(F::key(&a), F::key(&b), e.0)),
        Host::Search { spec, .. } => {
            let mask = spec.mask;
            let out = F::search(&root, spec, &mut |a, b, e| {
                if !on_yield(F::key(a), F::key(b), e.0) {
                    cut();
                }
                mask & (1 << (e.0 % 16)) == 0
            });
            // results keep the nodes they mention alive and usable, released from the container or not
            match out {
                SearchOut::Node(Some(n)) => {
                    let _ = (F::key(&n), F::out_degree(&n));
                }
                SearchOut::Path(Some(p)) | SearchOut::Edges(p) => {
                    for (a, b, _) in &p {
                        let _ = (F::key(a), F::out_degree(b));
                    }
                }
                SearchOut::Nodes(v) => {
                    for n in &v {
                        let _ = (F::key(n), F::out_degree(n));
                    }
                }
                _ => {}
            }
        }
        Host::Dot => {}
    });
    stats.add("nodes_released_inside_a_running_loop", SOLE_REMOVED.with(|c| c.replace(0)));
    if let Some(v) = verdict.borrow_mut().take() {
        return Some(v);
    }
    match res {
        Caught::Ok(()) => {}
        Caught::Panic(m) | Caught::Abort(m) => {
            if removed.borrow().is_empty() {
                stats.inc("host_fails_without_injection_not_a_C20_verdict");
                return None;
            }
            return Some(Violation::new(
                "panic-in-loop",
                format!(
                    "{:?} on a graph whose nodes only the container holds, with the body isolating and removing nodes {:?}: {m}",
                    sc.host,
                    removed.borrow()
                ),
            ));
        }
    }
    // what is left is the model's graph
    let g = graph.borrow();
    let m = model.borrow();
    let check = caught(|| {
        for (k, n) in F::g_iter(&g) {
            let (out, inn) = World::<F>::lists_of(&n);
            let ok = if F::DIRECTED {
                out == m.out(k) && inn == m.inn(k)
            } else {
                let mut a = out.clone();
                a.sort();
                a == m.adj(k)
            };
            if !ok {
                return Err(format!("node {k} lists out {out:?} in {inn:?}"));
            }
        }
        Ok(())
    });
    match check {
        Caught::Ok(Ok(())) => None,
        Caught::Ok(Err(e)) => Some(Violation::new("effect-after-loop", format!("after {:?} whose body removed {:?}: {e}", sc.host, removed.borrow()))),
        Caught::Panic(e) | Caught::Abort(e) => Some(Violation::new("effect-after-loop", format!("after {:?}: the graph cannot be read back: {e}", sc.host))),
    }
}

thread_local! {
    static SOLE_REMOVED: std::cell::Cell<u64> = const { std::cell::Cell::new(0) };
}
fn stats_inc_sole() {
    SOLE_REMOVED.with(|c| c.set(c.get() + 1));
}

fn run<F: Flavour>(sc: &InjSc, stats: &mut Stats) -> Option<Violation> {
    crate::keys::set_style(crate::keys::style_from(sc.hash_seed));
    hashseam::set_seed(sc.hash_seed);
    let solo = Solo::new();
    if F::SYNC {
        solo.install();
        solo.set_budget(2_000_000);
    }
    if sc.sole {
        stats.inc("runs_with_nodes_held_by_the_container_alone");
        let out = run_sole::<F>(sc, stats);
        if F::SYNC {
            Solo::uninstall();
            if let Some(h) = solo.harness_error() {
                eprintln!("HARNESS-ERROR: {h}");
                std::process::exit(2);
            }
        }
        return out;
    }
    let (v, host_failure) = run_host::<F>(sc, true, stats);
    let mut out = v;
    if out.is_none() {
        if let Some(f) = host_failure {
            // does the same loop fail without any injected operation? then it is not
            // a re-entrancy matter (C04-C10, not decided here)
            if F::SYNC {
                solo.set_budget(2_000_000);
            }
            let mut dummy = Stats::default();
            let (_, base) = run_host::<F>(sc, false, &mut dummy);
            if base.is_some() {
                stats.inc("host_fails_without_injection_not_a_C20_verdict");
                stats.note(format!("{:?} fails on a frozen graph (outside C20): {f}", sc.host));
            } else {
                let class = if f.starts_with("abort: self-deadlock") {
                    "deadlock-in-loop"
                } else if f.starts_with("abort") {
                    "hang-in-loop"
                } else {
                    "panic-in-loop"
                };
                out = Some(Violation::new(
                    class,
                    format!("{:?} with script {:?} fired per step {:?}: {f}", sc.host, sc.script, sc.fire),
                ));
            }
        }
    }
    if F::SYNC {
        let st = solo.stats();
        stats.add("lock_acquisitions", st.acquisitions);
        stats.add("self_deadlocks_detected", st.self_deadlocks);
        Solo::uninstall();
        if let Some(h) = solo.harness_error() {
            eprintln!("HARNESS-ERROR: {h}");
            std::process::exit(2);
        }
    }
    out
}

fn gen_t(rng: &mut Rng, n: usize) -> T {
    match rng.below(10) {
        0..=2 => T::YSrc,
        3..=5 => T::YDst,
        _ => T::Abs(rng.below(n)),
    }
}

fn gen_host_spec(rng: &mut Rng, directed: bool, n: usize) -> SearchSpec {
    let kind = *rng.pick(&[SKind::Bfs, SKind::Dfs, SKind::PfsMin, SKind::PfsMax, SKind::Pre, SKind::Post]);
    let order = matches!(kind, SKind::Pre | SKind::Post);
    let mode = if order {
        *rng.pick(&[SMode::Nodes, SMode::Edges])
    } else {
        *rng.pick(&[SMode::Find, SMode::Path, SMode::Cycle])
    };
    let closure = if rng.coin() { Closure::ForEach } else { Closure::Filter };
    SearchSpec {
        kind,
        mode,
        target: if order || mode == SMode::Cycle || rng.chance(1, 2) { None } else { Some(rng.below(n)) },
        transpose: directed && rng.chance(1, 4),
        closure,
        mask: if closure == Closure::Filter && rng.coin() { (rng.next_u64() & rng.next_u64() & 0xffff) as u16 } else { 0 },
        query: false,
    }
}

/// A traversal that goes hundreds of nodes deep (a chain with side edges), its closure changing
/// the node under the cursor far from the root: code paths that depend on the depth reached.
fn gen_deep(rng: &mut Rng, tier: Tier, flavour: String, directed: bool) -> InjSc {
    let n = rng.range(520, if tier == Tier::Quick { 1400 } else { 3000 });
    let prios: Vec<u32> = (0..n).map(|_| rng.below(4) as u32).collect();
    let mut initial = Vec::new();
    let mut next_edge = 100u64;
    for i in 0..n - 1 {
        next_edge += 1;
        initial.push((i, i + 1, next_edge));
        if rng.chance(1, 2) {
            next_edge += 1;
            let j = if rng.chance(3, 4) { (i + 2 + rng.below(3)).min(n - 1) } else { rng.below(n) };
            initial.push((i, j, next_edge));
        }
    }
    let kind = *rng.pick(&[SKind::Pre, SKind::Post, SKind::Pre, SKind::Post, SKind::Dfs, SKind::Bfs, SKind::PfsMin]);
    let order = matches!(kind, SKind::Pre | SKind::Post);
    let closure = if rng.coin() { Closure::ForEach } else { Closure::Filter };
    let transpose = directed && rng.chance(1, 4);
    let spec = SearchSpec {
        kind,
        mode: if order { *rng.pick(&[SMode::Nodes, SMode::Edges]) } else { SMode::Find },
        target: None,
        transpose,
        closure,
        mask: 0,
        query: false,
    };
    let root = if transpose { n - 1 } else { 0 };
    let ns = rng.range(1, 6);
    let mut script = Vec::new();
    for _ in 0..ns {
        let h = Prov::Own;
        script.push(match rng.below(10) {
            0..=3 => InjOp::Isolate { u: if rng.chance(3, 4) { T::YSrc } else { T::YDst }, h },
            4..=6 => InjOp::Disconnect { u: T::YSrc, k: T::YDst, h },
            7 => InjOp::Disconnect { u: T::YDst, k: T::YSrc, h },
            8 => {
                next_edge += 1;
                InjOp::Connect { u: T::YSrc, v: T::Abs(rng.below(n)), e: next_edge, h }
            }
            _ => InjOp::Query { kind: rng.below(8) as u8, u: T::YSrc, k: T::YDst },
        });
    }
    // the script fires anywhere along the walk, mostly far from the root
    let horizon = rng.range(n / 2, 2 * n);
    let mut fire = vec![0u8; horizon];
    for _ in 0..script.len() {
        let i = rng.below(horizon);
        fire[i] = fire[i].saturating_add(1);
    }
    InjSc {
        flavour,
        prios,
        in_graph: false,
        hash_seed: rng.next_u64(),
        initial,
        host: Host::Search { root, spec },
        script,
        fire,
        every_step: None,
        sole: false,
    }
}

impl Engine for Inject {
    type Sc = InjSc;

    fn name(&self) -> &'static str {
        "inject"
    }

    fn generate(&self, rng: &mut Rng, tier: Tier) -> InjSc {
        let mut flavour = crate::flavour::FLAVOURS[rng.below(4)].to_string();
        if let Some(f) = crate::runner::only_flavour() {
            flavour = f;
        }
        let directed = flavour.contains("digraph");
        if rng.chance(1, 4000) {
            return gen_deep(rng, tier, flavour, directed);
        }
        let small = rng.chance(60, 100);
        let n = if small { rng.range(1, 3) } else { rng.range(3, 7) };
        let prios: Vec<u32> = (0..n).map(|_| rng.below(4) as u32).collect();
        let mut m = Model::new(directed, n);
        let mut next_edge = 100;
        let initial = gen::gen_initial(rng, &mut m, &mut next_edge, if small { 4 } else { 12 });
        // prefer a host node that has something to iterate
        let busy: Vec<usize> = (0..n).filter(|u| m.incident(*u) > 0).collect();
        let hu = if !busy.is_empty() && rng.chance(4, 5) { *rng.pick(&busy) } else { rng.below(n) };
        let host = match rng.below(12) {
            0..=1 => Host::IterOut { u: hu },
            2 => Host::IterIn { u: hu },
            3 => Host::IterInto { u: hu },
            4..=5 => Host::Adapted { u: hu, dir: rng.below(3) as u8, style: rng.range(1, 8) as u8 },
            _ => Host::Search { root: hu, spec: gen_host_spec(rng, directed, n) },
        };
        let mut in_graph = rng.chance(1, 3);
        let host = if rng.chance(1, 25) && !flavour.starts_with("sync_un") {
            in_graph = true;
            Host::Dot
        } else {
            host
        };
        let max_script = if tier == Tier::Quick { 12 } else { 20 };
        let ns = rng.below(max_script + 1);
        let provs = [Prov::Own, Prov::Own, Prov::Clone, Prov::Get, Prov::Index, Prov::EdgeSrc, Prov::EdgeDst, Prov::Search, Prov::PathNode];
        let mut script = Vec::new();
        for _ in 0..ns {
            let h = *rng.pick(&provs);
            let op = match rng.below(100) {
                0..=24 => {
                    next_edge += 1;
                    InjOp::Connect { u: gen_t(rng, n), v: gen_t(rng, n), e: next_edge, h }
                }
                25..=34 => {
                    next_edge += 1;
                    InjOp::TryConnect { u: gen_t(rng, n), v: gen_t(rng, n), e: next_edge, h }
                }
                35..=59 => {
                    // biased: remove the element under the cursor
                    if rng.chance(1, 2) {
                        if !directed && rng.coin() {
                            InjOp::Disconnect { u: T::YDst, k: T::YSrc, h }
                        } else {
                            InjOp::Disconnect { u: T::YSrc, k: T::YDst, h }
                        }
                    } else {
                        InjOp::Disconnect { u: gen_t(rng, n), k: gen_t(rng, n), h }
                    }
                }
                60..=69 => InjOp::Isolate { u: gen_t(rng, n), h },
                70..=79 => InjOp::Query { kind: rng.below(8) as u8, u: gen_t(rng, n), k: gen_t(rng, n) },
                80..=85 => InjOp::NestedIter { u: gen_t(rng, n) },
                86..=91 => {
                    let mut spec = gen::gen_search_spec(rng, &m, true);
                    if !spec.valid(directed) {
                        spec.transpose = false;
                    }
                    InjOp::NestedSearch { root: gen_t(rng, n), spec }
                }
                92..=93 => InjOp::GInsertNew { key: 500 + rng.below(3) },
                94..=95 => InjOp::GRemove { u: gen_t(rng, n) },
                96 => InjOp::GReinsert { u: gen_t(rng, n) },
                97 => InjOp::GGet { u: gen_t(rng, n) },
                98 => InjOp::GView { kind: *rng.pick(&[0u8, 1, 2, 4, 5, 6, 8]) },
                _ => InjOp::GToVec,
            };
            script.push(op);
        }
        // where the script fires: a seeded plan over the first steps; most hosts run for only a
        // few steps, so the plan is kept within the number of steps the frozen graph would give
        let est = match &host {
            Host::IterOut { u } | Host::IterInto { u } | Host::Adapted { u, dir: 0 | 2, .. } => {
                if directed {
                    m.out(*u).len()
                } else {
                    m.adj(*u).len()
                }
            }
            Host::IterIn { u } | Host::Adapted { u, .. } => {
                if directed {
                    m.inn(*u).len()
                } else {
                    m.adj(*u).len()
                }
            }
            Host::Search { .. } => m.edges.len().min(8),
            Host::Dot => (m.edges.len() + n).min(10),
        };
        let horizon = if rng.chance(1, 5) { rng.range(1, 10) } else { rng.range(1, est.max(1)) };
        let mut fire = vec![0u8; horizon];
        for _ in 0..script.len() {
            let i = rng.below(horizon);
            fire[i] = fire[i].saturating_add(1);
        }
        if rng.chance(1, 3) {
            // everything at the first step
            fire = vec![script.len() as u8];
        }
        // an operation that adds no edge, repeated at every step
        let every_step = if rng.chance(1, 6) {
            Some(match rng.below(10) {
                0..=3 => {
                    let mut spec = gen::gen_search_spec(rng, &m, true);
                    if !spec.valid(directed) {
                        spec.transpose = false;
                    }
                    // prefer the kind of the host (a nested search of the same kind shares whatever
                    // state the implementation keeps per kind)
                    if let Host::Search { spec: hs, .. } = &host {
                        if rng.coin() && !matches!(hs.kind, SKind::Pre | SKind::Post) {
                            spec.kind = hs.kind;
                            spec.mode = *rng.pick(&[SMode::Find, SMode::Path, SMode::Cycle]);
                            if spec.mode == SMode::Cycle {
                                spec.target = None;
                            }
                        }
                    }
                    InjOp::NestedSearch { root: gen_t(rng, n), spec }
                }
                4..=5 => InjOp::NestedIter { u: gen_t(rng, n) },
                6..=7 => InjOp::Query { kind: rng.below(8) as u8, u: gen_t(rng, n), k: gen_t(rng, n) },
                8 => InjOp::Disconnect { u: T::YSrc, k: T::YDst, h: Prov::Own },
                _ => InjOp::GToVec,
            })
        } else {
            None
        };
        // one run in 12: the container holds the only handle of every node but the host's and
        // the body releases nodes (isolate, remove from the container, let go)
        let sole = !matches!(host, Host::Dot) && rng.chance(1, 12);
        let (script, fire, every_step) = if sole {
            let k = rng.range(1, 4);
            let script: Vec<InjOp> = (0..k)
                .map(|_| InjOp::GRemove {
                    u: match rng.below(10) {
                        0..=5 => T::YDst,
                        6..=7 => T::YSrc,
                        _ => T::Abs(rng.below(n)),
                    },
                })
                .collect();
            let horizon = rng.range(1, est.max(1).min(6));
            let mut fire = vec![0u8; horizon];
            for _ in 0..script.len() {
                let i = rng.below(horizon);
                fire[i] += 1;
            }
            (script, fire, None)
        } else {
            (script, fire, every_step)
        };
        InjSc {
            flavour,
            prios,
            in_graph: in_graph || sole,
            hash_seed: rng.next_u64(),
            initial,
            host,
            script,
            fire,
            every_step,
            sole,
        }
    }

    fn execute(&self, sc: &InjSc, stats: &mut Stats) -> Option<(Violation, InjSc)> {
        stats.inc(&format!("runs_{}", sc.flavour));
        let hk = match &sc.host {
            Host::IterOut { .. } => "host_iter_out".to_string(),
            Host::IterIn { .. } => "host_iter_in".to_string(),
            Host::IterInto { .. } => "host_into_iter".to_string(),
            Host::Dot => "host_to_dot_with_attr_callbacks".to_string(),
            Host::Adapted { dir, style, .. } => format!(
                "host_adapted_dir{dir}_{}",
                ["", "size_hint", "map_collect", "for_each", "try_for_each", "step_by", "skip", "fold", "nth_last"][(*style as usize).min(8)]
            ),
            Host::Search { spec, .. } => format!("host_{:?}_{:?}{}", spec.kind, spec.mode, if spec.transpose { "_T" } else { "" }).to_lowercase(),
        };
        stats.inc(&hk);
        let fp = crate::rng::fnv(
            serde_json::to_string(&(&sc.flavour, &sc.initial, &sc.host, &sc.script, &sc.fire, &sc.every_step))
                .unwrap()
                .as_bytes(),
        );
        stats.mark("host_script_plan", fp);
        let r = with_flavour!(sc.flavour.as_str(), F, run::<F>(sc, stats));
        r.map(|v| (v, sc.clone()))
    }

    fn shrink(&self, sc: &InjSc) -> Vec<InjSc> {
        let mut out = Vec::new();
        // fewer script entries (keep the firing plan consistent: fire everything as early
        // as the original step of the first remaining entry)
        for i in 0..sc.script.len() {
            let mut c = sc.clone();
            c.script.remove(i);
            // decrement the plan at the step that fired entry i
            let mut acc = 0usize;
            for f in c.fire.iter_mut() {
                if i < acc + *f as usize {
                    *f -= 1;
                    break;
                }
                acc += *f as usize;
            }
            out.push(c);
        }
        for init in gen::shrink_vec(&sc.initial, 40) {
            let mut c = sc.clone();
            c.initial = init;
            out.push(c);
        }
        if sc.in_graph {
            let mut c = sc.clone();
            c.in_graph = false;
            out.push(c);
        }
        if sc.every_step.is_some() {
            let mut c = sc.clone();
            c.every_step = None;
            out.push(c);
        }
        // trailing empty steps
        if sc.fire.last() == Some(&0) {
            let mut c = sc.clone();
            c.fire.pop();
            out.push(c);
        }
        // drop unused highest node
        let n = sc.prios.len();
        if n > 1 {
            let k = n - 1;
            let uses = |t: &T| matches!(t, T::Abs(x) if *x == k);
            let host_uses = match &sc.host {
                Host::IterOut { u } | Host::IterIn { u } | Host::IterInto { u } | Host::Adapted { u, .. } => *u == k,
                Host::Search { root, spec } => *root == k || spec.target == Some(k),
                Host::Dot => false,
            };
            let script_uses = sc.script.iter().any(|o| match o {
                InjOp::Connect { u, v, .. } | InjOp::TryConnect { u, v, .. } => uses(u) || uses(v),
                InjOp::Disconnect { u, k: kk, .. } => uses(u) || uses(kk),
                InjOp::Isolate { u, .. } | InjOp::NestedIter { u } | InjOp::GRemove { u } | InjOp::GReinsert { u } | InjOp::GGet { u } => uses(u),
                InjOp::Query { u, k: kk, .. } => uses(u) || uses(kk),
                InjOp::NestedSearch { root, spec } => uses(root) || spec.target == Some(k),
                _ => false,
            });
            let every_uses = match &sc.every_step {
                Some(InjOp::NestedSearch { root, spec }) => uses(root) || spec.target == Some(k),
                Some(InjOp::NestedIter { u }) => uses(u),
                Some(InjOp::Query { u, k: kk, .. }) | Some(InjOp::Disconnect { u, k: kk, .. }) => uses(u) || uses(kk),
                _ => false,
            };
            if !host_uses && !script_uses && !every_uses && !sc.initial.iter().any(|(u, v, _)| *u == k || *v == k) {
                let mut c = sc.clone();
                c.prios.pop();
                out.push(c);
            }
        }
        // plain provenance
        let mut c = sc.clone();
        let mut changed = false;
        for o in c.script.iter_mut() {
            match o {
                InjOp::Connect { h, .. } | InjOp::TryConnect { h, .. } | InjOp::Disconnect { h, .. } | InjOp::Isolate { h, .. } => {
                    if *h != Prov::Own {
                        *h = Prov::Own;
                        changed = true;
                    }
                }
                _ => {}
            }
        }
        if changed {
            out.push(c);
        }
        out
    }

    fn size(&self, sc: &InjSc) -> usize {
        let provs = sc
            .script
            .iter()
            .filter(|o| match o {
                InjOp::Connect { h, .. } | InjOp::TryConnect { h, .. } | InjOp::Disconnect { h, .. } | InjOp::Isolate { h, .. } => *h != Prov::Own,
                _ => false,
            })
            .count();
        sc.script.len() * 16
            + sc.initial.len() * 4
            + sc.prios.len() * 2
            + sc.fire.len()
            + sc.in_graph as usize
            + provs
            + sc.every_step.is_some() as usize * 8
    }
}
