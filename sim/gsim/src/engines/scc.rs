//! C11: scc() against a reachability-closure reference, under simulated
//! container iteration orders (hash seam) and insertion orders.

use crate::flavour::Flavour;
use crate::gen;
use crate::locks::{caught, Caught, Solo};
use crate::payload::{EVal, NVal};
use crate::rng::Rng;
use crate::runner::{Engine, Stats, Tier, Violation};
use crate::{hashseam, with_flavour};
use serde::{Deserialize, Serialize};
use std::collections::BTreeSet;

#[derive(Clone, Debug, Serialize, Deserialize)]
pub struct SccSc {
    pub flavour: String,
    pub n: usize,
    pub edges: Vec<(usize, usize, u64)>,
    /// one container instance per entry: (hash seed, insertion order)
    pub instances: Vec<(u64, Vec<usize>)>,
    /// edge changes made through node handles between successive scc() calls on the SAME
    /// container instance
    #[serde(default)]
    pub phases: Vec<Vec<EdgeChange>>,
    /// the container instances hold the SAME node objects (a node may be a member of several
    /// containers at once; every instance stays alive until the end of the run), instead of a
    /// fresh copy of the graph per instance
    #[serde(default)]
    pub shared_members: bool,
}

#[derive(Clone, Debug, Serialize, Deserialize, PartialEq)]
pub enum EdgeChange {
    Add(usize, usize, u64),
    /// try_connect(u, v): refused where an edge u->v exists
    TryAdd(usize, usize, u64),
    /// disconnect(u, key v)
    Del(usize, usize),
    Isolate(usize),
    /// isolate the node, then remove it from the container (the container stays closed)
    RemoveMember(usize),
    /// insert the (isolated) node again
    InsertMember(usize),
    /// call scc() this many times and throw the answers away (wear: call counters, stamps, caches)
    SccCalls(usize),
    /// rewire two edges a->b, c->d (positions in the current edge list) into a->d, c->b: every
    /// node keeps its in- and out-degree, the components may change
    Swap(usize, usize),
}

pub struct Scc;

fn reference_closure(n: usize, edges: &[(usize, usize, u64)]) -> BTreeSet<BTreeSet<usize>> {
    let mut reach = vec![vec![false; n]; n];
    for (i, r) in reach.iter_mut().enumerate() {
        r[i] = true;
    }
    for (u, v, _) in edges {
        reach[*u][*v] = true;
    }
    for k in 0..n {
        for i in 0..n {
            if reach[i][k] {
                for j in 0..n {
                    if reach[k][j] {
                        reach[i][j] = true;
                    }
                }
            }
        }
    }
    let mut out = BTreeSet::new();
    for i in 0..n {
        let c: BTreeSet<usize> = (0..n).filter(|j| reach[i][*j] && reach[*j][i]).collect();
        out.insert(c);
    }
    out
}

/// iterative Tarjan (for graphs too large for the closure)
fn reference_tarjan(n: usize, edges: &[(usize, usize, u64)]) -> BTreeSet<BTreeSet<usize>> {
    let mut adj = vec![Vec::new(); n];
    for (u, v, _) in edges {
        adj[*u].push(*v);
    }
    let mut index = vec![usize::MAX; n];
    let mut low = vec![0usize; n];
    let mut on = vec![false; n];
    let mut stack = Vec::new();
    let mut next = 0;
    let mut out = BTreeSet::new();
    for root in 0..n {
        if index[root] != usize::MAX {
            continue;
        }
        let mut call: Vec<(usize, usize)> = vec![(root, 0)];
        index[root] = next;
        low[root] = next;
        next += 1;
        stack.push(root);
        on[root] = true;
        while let Some((v, i)) = call.last().copied() {
            if i < adj[v].len() {
                call.last_mut().unwrap().1 += 1;
                let w = adj[v][i];
                if index[w] == usize::MAX {
                    index[w] = next;
                    low[w] = next;
                    next += 1;
                    stack.push(w);
                    on[w] = true;
                    call.push((w, 0));
                } else if on[w] {
                    low[v] = low[v].min(index[w]);
                }
            } else {
                call.pop();
                if let Some((p, _)) = call.last() {
                    low[*p] = low[*p].min(low[v]);
                }
                if low[v] == index[v] {
                    let mut c = BTreeSet::new();
                    loop {
                        let w = stack.pop().unwrap();
                        on[w] = false;
                        c.insert(w);
                        if w == v {
                            break;
                        }
                    }
                    out.insert(c);
                }
            }
        }
    }
    out
}

fn reference(n: usize, edges: &[(usize, usize, u64)]) -> BTreeSet<BTreeSet<usize>> {
    let t = reference_tarjan(n, edges);
    if n <= 12 {
        // the two references check each other on every small graph
        let c = reference_closure(n, edges);
        if c != t {
            eprintln!("HARNESS-ERROR: reference SCC implementations disagree on {edges:?}");
            std::process::exit(2);
        }
    }
    t
}

fn check_scc<F: Flavour>(g: &F::Graph, n: usize, edges: &[(usize, usize, u64)], members: &BTreeSet<usize>, phase: usize, stats: &mut Stats) -> Option<Violation> {
    // non-members are isolated (no edges), so the reference over all n nodes has them as
    // singletons: drop those
    let want: BTreeSet<BTreeSet<usize>> = reference(n, edges).into_iter().filter(|c| c.iter().all(|k| members.contains(k))).collect();
    if want.iter().any(|c| c.len() > 1) {
        stats.inc("graphs_with_nontrivial_component");
    }
    if n <= 64 {
        let is_simple_cycle = |c: &BTreeSet<usize>| {
            c.iter().all(|u| edges.iter().filter(|(a, b, _)| a == u && c.contains(b) && a != b).count() == 1)
        };
        if want.iter().any(|c| c.len() > 2 && !is_simple_cycle(c)) {
            stats.inc("probe_component_that_is_not_a_simple_cycle");
        }
    }
    let iter_order: Vec<usize> = F::g_iter(g).iter().map(|(k, _)| *k).collect();
    let show = |v: &dyn std::fmt::Debug| {
        let s = format!("{v:?}");
        if s.len() > 600 {
            format!("{}… ({} chars)", &s[..600], s.len())
        } else {
            s
        }
    };
    let fp = crate::rng::fnv(serde_json::to_string(&(edges, n, &iter_order)).unwrap().as_bytes());
    stats.mark("graph_and_container_order", fp ^ crate::rng::fnv(F::NAME.as_bytes()));
    stats.inc("scc_calls");
    if n > 1024 {
        stats.inc("probe_container_with_more_than_1024_members");
    }
    if phase > 0 {
        stats.inc("scc_calls_repeated_on_same_container_after_edge_changes");
    }
    let got = match caught(|| F::g_scc(g).expect("directed flavour")) {
        Caught::Ok(g) => g,
        Caught::Panic(m) | Caught::Abort(m) => {
            return Some(Violation::new("panic", format!("scc() did not return: {m} (container order {})", show(&iter_order))));
        }
    };
    let listed: Vec<Vec<usize>> = got.iter().map(|c| c.iter().map(|n| F::key(n)).collect()).collect();
    let mut seen = BTreeSet::new();
    let mut dup = None;
    for c in &listed {
        for k in c {
            if !seen.insert(*k) {
                dup = Some(*k);
            }
        }
    }
    let ctx = format!("(call #{phase} on this container, {n} members, edges {}, container order {})", show(&edges), show(&iter_order));
    if let Some(k) = dup {
        return Some(Violation::new("not-a-partition", format!("node {k} appears twice in {} {ctx}", show(&listed))));
    }
    if seen != *members || listed.iter().any(|c| c.is_empty()) {
        return Some(Violation::new(
            "not-a-partition",
            format!("components {} do not cover the {} members exactly once {ctx}", show(&listed), members.len()),
        ));
    }
    let got_set: BTreeSet<BTreeSet<usize>> = listed.iter().map(|c| c.iter().copied().collect()).collect();
    if got_set != want {
        let wrong: Vec<&BTreeSet<usize>> = got_set.difference(&want).take(3).collect();
        return Some(Violation::new(
            "wrong-components",
            format!(
                "scc() returned {} components, the graph has {}; e.g. returned {} which is not a strongly connected component {ctx}",
                got_set.len(),
                want.len(),
                show(&wrong)
            ),
        ));
    }
    None
}

fn run<F: Flavour>(sc: &SccSc, stats: &mut Stats) -> Option<Violation> {
    let solo = Solo::new();
    if F::SYNC {
        solo.install();
    }
    crate::keys::set_style(crate::keys::style_from(sc.instances.first().map(|x| x.0).unwrap_or(0)));
    let mut orders_seen = BTreeSet::new();
    let mut result = None;
    // (nodes, current edges, the earlier containers) when the instances share their members
    #[allow(clippy::type_complexity)]
    let mut shared: Option<(Vec<F::Node>, Vec<(usize, usize, u64)>, Vec<F::Graph>)> = None;
    if sc.shared_members {
        stats.inc("runs_with_members_shared_by_several_containers");
    }
    'inst: for (inst_no, (hs, order)) in sc.instances.iter().enumerate() {
        hashseam::set_seed(*hs);
        let (nodes, mut edges): (Vec<F::Node>, Vec<(usize, usize, u64)>) = match &shared {
            Some((ns, es, _)) if sc.shared_members => (ns.clone(), es.clone()),
            _ => {
                let nodes: Vec<F::Node> =
                    (0..sc.n).map(|k| F::node_new(k, NVal::new((crate::rng::mix(*hs ^ k as u64) % 4) as u32, k as u64))).collect();
                for (u, v, e) in &sc.edges {
                    F::connect(&nodes[*u], &nodes[*v], EVal::new(*e));
                }
                (nodes, sc.edges.clone())
            }
        };
        let mut g = F::g_new();
        for k in order {
            F::g_insert(&mut g, nodes[*k].clone());
        }
        if sc.n <= 64 {
            orders_seen.insert(F::g_iter(&g).iter().map(|(k, _)| *k).collect::<Vec<_>>());
        }
        let mut members: BTreeSet<usize> = (0..sc.n).collect();
        // (edge values stay unique also when the instances share their nodes)
        let mut fresh = 900_000u64 + 100_000 * inst_no as u64;
        if let Some(v) = check_scc::<F>(&g, sc.n, &edges, &members, 0, stats) {
            result = Some(v);
            break;
        }
        // the same container again after edge changes made through the node handles
        for (pi, phase) in sc.phases.iter().enumerate() {
            for ch in phase {
                match ch {
                    EdgeChange::Add(u, v, e) => {
                        // the container must stay closed under neighbours
                        if members.contains(u) && members.contains(v) {
                            let e = &(*e + 10_000_000 * inst_no as u64 * sc.shared_members as u64);
                            F::connect(&nodes[*u], &nodes[*v], EVal::new(*e));
                            edges.push((*u, *v, *e));
                        }
                    }
                    EdgeChange::TryAdd(u, v, e) => {
                        if members.contains(u) && members.contains(v) {
                            let e = &(*e + 10_000_000 * inst_no as u64 * sc.shared_members as u64);
                            match F::try_connect(&nodes[*u], &nodes[*v], EVal::new(*e)) {
                                Ok(()) => edges.push((*u, *v, *e)),
                                Err(_) => stats.inc("probe_try_connect_refused_between_scc_calls"),
                            }
                        }
                    }
                    EdgeChange::Del(u, v) => {
                        if let Ok(val) = F::disconnect(&nodes[*u], *v) {
                            if let Some(p) = edges.iter().position(|x| x.2 == val.0) {
                                edges.remove(p);
                            }
                        }
                    }
                    EdgeChange::Isolate(u) => {
                        F::isolate(&nodes[*u]);
                        edges.retain(|x| x.0 != *u && x.1 != *u);
                    }
                    EdgeChange::RemoveMember(u) => {
                        F::isolate(&nodes[*u]);
                        edges.retain(|x| x.0 != *u && x.1 != *u);
                        F::g_remove(&mut g, *u);
                        members.remove(u);
                        stats.inc("probe_member_removed_between_scc_calls");
                    }
                    EdgeChange::InsertMember(u) => {
                        if !members.contains(u) {
                            F::g_insert(&mut g, nodes[*u].clone());
                            members.insert(*u);
                        }
                    }
                    EdgeChange::SccCalls(times) => {
                        stats.inc("probe_scc_called_hundreds_of_times_on_one_container");
                        for _ in 0..*times {
                            solo.set_budget(50_000_000);
                            let _ = F::g_scc(&g);
                        }
                    }
                    EdgeChange::Swap(i, j) => {
                        if edges.len() >= 2 {
                            let (i, j) = (*i % edges.len(), *j % edges.len());
                            let ((a, b, _), (c, d, _)) = (edges[i], edges[j]);
                            if i != j {
                                let r1 = F::disconnect(&nodes[a], b);
                                let r2 = F::disconnect(&nodes[c], d);
                                if let (Ok(v1), Ok(v2)) = (r1, r2) {
                                    for val in [v1.0, v2.0] {
                                        if let Some(p) = edges.iter().position(|x| x.2 == val) {
                                            edges.remove(p);
                                        }
                                    }
                                    // (values stay unique: the reference edge list is kept by value)
                                    fresh += 2;
                                    let (e1, e2) = (fresh, fresh + 1);
                                    F::connect(&nodes[a], &nodes[d], EVal::new(e1));
                                    F::connect(&nodes[c], &nodes[b], EVal::new(e2));
                                    edges.push((a, d, e1));
                                    edges.push((c, b, e2));
                                    stats.inc("probe_degree_preserving_rewiring_between_scc_calls");
                                }
                            }
                        }
                    }
                }
            }
            if let Some(v) = check_scc::<F>(&g, sc.n, &edges, &members, pi + 1, stats) {
                result = Some(v);
                break 'inst;
            }
        }
        if sc.shared_members {
            let mut kept = shared.take().map(|x| x.2).unwrap_or_default();
            kept.push(g);
            shared = Some((nodes, edges, kept));
        }
    }
    if orders_seen.len() > 1 {
        stats.inc("probe_container_order_differed_between_instances");
    }
    if F::SYNC {
        Solo::uninstall();
    }
    result
}

impl Engine for Scc {
    type Sc = SccSc;

    fn name(&self) -> &'static str {
        "scc"
    }

    fn generate(&self, rng: &mut Rng, tier: Tier) -> SccSc {
        let flavour = if rng.coin() { "digraph" } else { "sync_digraph" }.to_string();
        let small = rng.chance(55, 100);
        // rarely a container far beyond the usual sizes (size-dependent code paths)
        let huge = rng.chance(1, 15_000);
        // (a third of them beyond 4096 members; only sparse shapes there)
        let giant = huge && rng.chance(1, 3);
        let n = if giant {
            rng.range(4100, 9000)
        } else if huge {
            rng.range(700, 1800)
        } else if small {
            rng.range(1, 4)
        } else if rng.chance(1, 300) {
            rng.range(31, 400)
        } else {
            rng.range(5, if tier == Tier::Quick { 16 } else { 30 })
        };
        let mut edges = Vec::new();
        let mut next = 100u64;
        let push = |edges: &mut Vec<(usize, usize, u64)>, u: usize, v: usize| {
            let id = 100 + edges.len() as u64 + 1;
            edges.push((u, v, id));
        };
        // swarm: shape of the graph varies per run
        match if giant { *rng.pick(&[0usize, 4, 5, 5, 6, 6]) } else if huge { *rng.pick(&[0usize, 3, 4, 5, 6]) } else { rng.below(5) } {
            5 => {
                // many small gadgets a->b, a->c, c->b and short cycles
                let mut i = 0;
                while i + 3 <= n {
                    if rng.coin() {
                        push(&mut edges, i, i + 1);
                        push(&mut edges, i, i + 2);
                        push(&mut edges, i + 2, i + 1);
                    } else {
                        push(&mut edges, i, i + 1);
                        push(&mut edges, i + 1, i + 2);
                        push(&mut edges, i + 2, i);
                    }
                    if i + 3 < n && rng.chance(1, 3) {
                        push(&mut edges, i + rng.below(3), i + 3);
                    }
                    i += 3;
                }
            }
            0 => {
                // sparse random
                let m = rng.below(n * 2 + 1);
                for _ in 0..m {
                    let (u, v) = (rng.below(n), rng.below(n));
                    push(&mut edges, u, v);
                }
            }
            1 => {
                // dense random
                let m = rng.below(if n > 30 { 6 * n } else { n * n } + 1);
                for _ in 0..m {
                    let (u, v) = (rng.below(n), rng.below(n));
                    push(&mut edges, u, v);
                }
            }
            2 => {
                // several cycles sharing nodes (figure-eights), plus chords
                let cycles = rng.range(1, 4);
                for _ in 0..cycles {
                    let len = rng.range(1, n.min(6));
                    let mut members: Vec<usize> = (0..n).collect();
                    rng.shuffle(&mut members);
                    members.truncate(len);
                    for i in 0..members.len() {
                        push(&mut edges, members[i], members[(i + 1) % members.len()]);
                    }
                }
                for _ in 0..rng.below(n + 1) {
                    let (u, v) = (rng.below(n), rng.below(n));
                    push(&mut edges, u, v);
                }
            }
            3 => {
                // DAG (u < v) with a few back edges
                for u in 0..n {
                    for v in (u + 1)..n {
                        if rng.chance(1, 3) {
                            push(&mut edges, u, v);
                        }
                    }
                }
                for _ in 0..rng.below(3) {
                    let (u, v) = (rng.below(n), rng.below(n));
                    push(&mut edges, u.max(v), u.min(v));
                }
            }
            6 => {
                // one long path through many small components (every component is linked to the
                // next one; a few links skip ahead): a depth-first walk from its head goes as deep
                // as the graph is large
                let mut i = 0;
                while i < n {
                    let len = rng.range(1, 3).min(n - i);
                    for j in 0..len {
                        if len > 1 || rng.chance(1, 6) {
                            push(&mut edges, i + j, i + (j + 1) % len);
                        }
                    }
                    if i + len < n {
                        push(&mut edges, i + len - 1, i + len);
                        if rng.chance(1, 50) {
                            let to = (i + len + rng.below(40)).min(n - 1);
                            push(&mut edges, i, to);
                        }
                    }
                    i += len;
                }
            }
            _ => {
                // chain of components
                let mut i = 0;
                while i < n {
                    let len = rng.range(1, 4).min(n - i);
                    for j in 0..len {
                        if len > 1 || rng.chance(1, 4) {
                            push(&mut edges, i + j, i + (j + 1) % len);
                        }
                    }
                    if i + len < n && rng.chance(2, 3) {
                        push(&mut edges, i + rng.below(len), i + len);
                    }
                    i += len;
                }
            }
        }
        // parallel edges and self-loops on top
        for _ in 0..rng.below(3) {
            if !edges.is_empty() && rng.coin() {
                let (u, v, _) = edges[rng.below(edges.len())];
                push(&mut edges, u, v);
            } else {
                let u = rng.below(n);
                push(&mut edges, u, u);
            }
        }
        rng.shuffle(&mut edges);
        next += edges.len() as u64 + 1;
        let mut phases = Vec::new();
        if !huge && rng.chance(1, 3) {
            let mut cur = edges.clone();
            for _ in 0..rng.range(1, 3) {
                let mut ph = Vec::new();
                for _ in 0..rng.range(1, 4) {
                    match rng.below(10) {
                        0..=2 => {
                            next += 1;
                            let (u, v) = (rng.below(n), rng.below(n));
                            ph.push(EdgeChange::Add(u, v, next));
                            cur.push((u, v, next));
                        }
                        3 => {
                            // try_connect, more often than not on a pair that is connected already
                            next += 1;
                            let (u, v) = if !cur.is_empty() && rng.chance(2, 3) {
                                let (u, v, _) = cur[rng.below(cur.len())];
                                (u, v)
                            } else {
                                (rng.below(n), rng.below(n))
                            };
                            ph.push(EdgeChange::TryAdd(u, v, next));
                            if !cur.iter().any(|x| x.0 == u && x.1 == v) {
                                cur.push((u, v, next));
                            }
                        }
                        4 if rng.chance(1, 3) => ph.push(EdgeChange::Swap(rng.below(64), rng.below(64))),
                        4..=8 if !cur.is_empty() => {
                            let (u, v, _) = cur[rng.below(cur.len())];
                            ph.push(EdgeChange::Del(u, v));
                            if let Some(p) = cur.iter().position(|x| x.0 == u && x.1 == v) {
                                cur.remove(p);
                            }
                        }
                        9 if rng.coin() => {
                            let u = rng.below(n);
                            if rng.chance(2, 3) {
                                ph.push(EdgeChange::RemoveMember(u));
                                cur.retain(|x| x.0 != u && x.1 != u);
                            } else {
                                ph.push(EdgeChange::InsertMember(u));
                            }
                        }
                        _ => {
                            let u = rng.below(n);
                            ph.push(EdgeChange::Isolate(u));
                            cur.retain(|x| x.0 != u && x.1 != u);
                        }
                    }
                }
                phases.push(ph);
            }
        }
        // wear: a member leaves, scc() is called 256 or 65 536 times (give or take a few), the
        // member comes back with an edge
        let wear = !huge && n >= 2 && n <= 8 && rng.chance(1, 12_000);
        if wear {
            let k = rng.below(n);
            let other = (k + 1) % n;
            let times = *rng.pick(&[256usize, 256, 65_536]) - rng.below(5);
            next += 2;
            phases = vec![vec![EdgeChange::RemoveMember(k)], vec![EdgeChange::SccCalls(times)], vec![EdgeChange::InsertMember(k), EdgeChange::Add(k, other, next), EdgeChange::Add(other, k, next + 1)]];
        }
        let ni = if huge || wear { 1 } else { rng.range(2, 4) };
        let instances = (0..ni)
            .map(|_| {
                let mut order: Vec<usize> = (0..n).collect();
                rng.shuffle(&mut order);
                (rng.next_u64(), order)
            })
            .collect();
        SccSc {
            flavour,
            n,
            edges,
            instances,
            phases,
            shared_members: !huge && rng.chance(1, 6),
        }
    }

    fn execute(&self, sc: &SccSc, stats: &mut Stats) -> Option<(Violation, SccSc)> {
        stats.inc(&format!("runs_{}", sc.flavour));
        let r = if sc.n >= 2000 {
            // graphs this large may hold paths thousands of edges long, and the library's
            // orderings recurse along them: such scenarios run on a thread with a stack of its
            // own (1 GiB reserved, touched only as deep as the walk goes), so that the depth a
            // scenario reaches is never limited by whatever stack the worker happens to have
            stats.inc("runs_on_a_thread_with_a_deep_stack");
            std::thread::scope(|s| {
                std::thread::Builder::new()
                    .stack_size(1 << 30)
                    .spawn_scoped(s, || match crate::locks::caught(|| with_flavour!(sc.flavour.as_str(), F, run::<F>(sc, stats))) {
                        crate::locks::Caught::Ok(r) => r,
                        crate::locks::Caught::Panic(m) => Some(Violation::new("panic", format!("scc() on a container of {} members panicked: {m}", sc.n))),
                        crate::locks::Caught::Abort(m) => Some(Violation::new("deadlock", format!("scc() on a container of {} members cannot return: {m}", sc.n))),
                    })
                    .expect("spawn")
                    .join()
                    .unwrap_or_else(|_| {
                        eprintln!("HARNESS-ERROR: the deep-stack thread of the scc engine died");
                        std::process::exit(2)
                    })
            })
        } else {
            with_flavour!(sc.flavour.as_str(), F, run::<F>(sc, stats))
        };
        r.map(|v| (v, sc.clone()))
    }

    fn shrink(&self, sc: &SccSc) -> Vec<SccSc> {
        let mut out = Vec::new();
        if sc.shared_members {
            let mut c = sc.clone();
            c.shared_members = false;
            out.push(c);
        }
        if sc.instances.len() > 1 {
            if sc.instances.len() > 2 {
                for i in 0..sc.instances.len() {
                    let mut c = sc.clone();
                    c.instances.remove(i);
                    out.push(c);
                }
            }
            for i in 0..sc.instances.len() {
                let mut c = sc.clone();
                c.instances = vec![sc.instances[i].clone()];
                out.push(c);
            }
        }
        // (for the rare huge graphs every candidate is a copy of the edge list: keep it to chunks)
        for k in (0..sc.n).rev() {
            if sc.n > 1 && sc.n <= 200 {
                let remap = |x: usize| if x == k { None } else if x > k { Some(x - 1) } else { Some(x) };
                let phases: Option<Vec<Vec<EdgeChange>>> = sc
                    .phases
                    .iter()
                    .map(|ph| {
                        ph.iter()
                            .map(|c| {
                                Some(match c {
                                    EdgeChange::Add(u, v, e) => EdgeChange::Add(remap(*u)?, remap(*v)?, *e),
                                    EdgeChange::TryAdd(u, v, e) => EdgeChange::TryAdd(remap(*u)?, remap(*v)?, *e),
                                    EdgeChange::Del(u, v) => EdgeChange::Del(remap(*u)?, remap(*v)?),
                                    EdgeChange::Isolate(u) => EdgeChange::Isolate(remap(*u)?),
                                    EdgeChange::RemoveMember(u) => EdgeChange::RemoveMember(remap(*u)?),
                                    EdgeChange::InsertMember(u) => EdgeChange::InsertMember(remap(*u)?),
                                    EdgeChange::SccCalls(t) => EdgeChange::SccCalls(*t),
                                    EdgeChange::Swap(i, j) => EdgeChange::Swap(*i, *j),
                                })
                            })
                            .collect()
                    })
                    .collect();
                // (not gen::remap_edges: node indices above 1000 are real nodes here)
                let edges: Option<Vec<(usize, usize, u64)>> = sc.edges.iter().map(|(u, v, e)| Some((remap(*u)?, remap(*v)?, *e))).collect();
                if let (Some(edges), Some(phases)) = (edges, phases) {
                    let mut c = sc.clone();
                    c.n -= 1;
                    c.edges = edges;
                    c.phases = phases;
                    for (_, o) in c.instances.iter_mut() {
                        o.retain(|x| *x != k);
                        for x in o.iter_mut() {
                            if *x > k {
                                *x -= 1;
                            }
                        }
                    }
                    out.push(c);
                }
            }
        }
        if !sc.phases.is_empty() {
            let mut c = sc.clone();
            c.phases.pop();
            out.push(c);
            for (i, ph) in sc.phases.iter().enumerate() {
                for j in 0..ph.len() {
                    if ph.len() > 1 {
                        let mut c = sc.clone();
                        c.phases[i].remove(j);
                        out.push(c);
                    }
                }
            }
        }
        for e in gen::shrink_vec(&sc.edges, 120) {
            let mut c = sc.clone();
            c.edges = e;
            out.push(c);
        }
        out
    }

    fn size(&self, sc: &SccSc) -> usize {
        sc.edges.len() * 4 + sc.n * 2 + sc.instances.len() + sc.shared_members as usize + sc.phases.iter().map(|p| 3 + p.len() * 3).sum::<usize>()
    }
}
