//! C11: scc() against a reachability-closure reference, under simulated
//! container iteration orders (hash seam) and insertion orders.

use crate::flavour::Flavour;
use crate::gen;
use crate::locks::{caught, Caught, Solo};
use crate::payload::{EVal, NVal};
use crate::rng::Rng;
use crate::runner::{Engine, Stats, Tier, Violation};
use crate::{hashseam, with_flavour};
use serde::{Deserialize, Serialize};
use std::collections::BTreeSet;

#[derive(Clone, Debug, Serialize, Deserialize)]
pub struct SccSc {
    pub flavour: String,
    pub n: usize,
    pub edges: Vec<(usize, usize, u64)>,
    /// one container instance per entry: (hash seed, insertion order)
    pub instances: Vec<(u64, Vec<usize>)>,
}

pub struct Scc;

fn reference(n: usize, edges: &[(usize, usize, u64)]) -> BTreeSet<BTreeSet<usize>> {
    let mut reach = vec![vec![false; n]; n];
    for (i, r) in reach.iter_mut().enumerate() {
        r[i] = true;
    }
    for (u, v, _) in edges {
        reach[*u][*v] = true;
    }
    for k in 0..n {
        for i in 0..n {
            if reach[i][k] {
                for j in 0..n {
                    if reach[k][j] {
                        reach[i][j] = true;
                    }
                }
            }
        }
    }
    let mut out = BTreeSet::new();
    for i in 0..n {
        let c: BTreeSet<usize> = (0..n).filter(|j| reach[i][*j] && reach[*j][i]).collect();
        out.insert(c);
    }
    out
}

fn run<F: Flavour>(sc: &SccSc, stats: &mut Stats) -> Option<Violation> {
    let want = reference(sc.n, &sc.edges);
    if want.iter().any(|c| c.len() > 1) {
        stats.inc("graphs_with_nontrivial_component");
    }
    let is_simple_cycle = |c: &BTreeSet<usize>| {
        c.iter().all(|u| sc.edges.iter().filter(|(a, b, _)| a == u && c.contains(b) && a != b).count() == 1)
    };
    if want.iter().any(|c| c.len() > 2 && !is_simple_cycle(c)) {
        stats.inc("probe_component_that_is_not_a_simple_cycle");
    }
    let solo = Solo::new();
    if F::SYNC {
        solo.install();
    }
    let mut orders_seen = BTreeSet::new();
    let mut result = None;
    for (hs, order) in &sc.instances {
        hashseam::set_seed(*hs);
        let nodes: Vec<F::Node> = (0..sc.n).map(|k| F::node_new(k, NVal::new(0, k as u64))).collect();
        for (u, v, e) in &sc.edges {
            F::connect(&nodes[*u], &nodes[*v], EVal::new(*e));
        }
        let mut g = F::g_new();
        for k in order {
            F::g_insert(&mut g, nodes[*k].clone());
        }
        let iter_order: Vec<usize> = F::g_iter(&g).iter().map(|(k, _)| *k).collect();
        orders_seen.insert(iter_order.clone());
        let fp = crate::rng::fnv(serde_json::to_string(&(&sc.flavour, &sc.edges, sc.n, &iter_order)).unwrap().as_bytes());
        stats.mark("graph_and_container_order", fp);
        stats.inc("scc_calls");
        let got = match caught(|| F::g_scc(&g).expect("directed flavour")) {
            Caught::Ok(g) => g,
            Caught::Panic(m) | Caught::Abort(m) => {
                result = Some(Violation::new("panic", format!("scc() did not return: {m} (container order {iter_order:?})")));
                break;
            }
        };
        let listed: Vec<Vec<usize>> = got.iter().map(|c| c.iter().map(|n| F::key(n)).collect()).collect();
        let mut seen = BTreeSet::new();
        let mut dup = None;
        for c in &listed {
            for k in c {
                if !seen.insert(*k) {
                    dup = Some(*k);
                }
            }
        }
        if let Some(k) = dup {
            result = Some(Violation::new(
                "not-a-partition",
                format!("node {k} appears twice in {listed:?} (edges {:?}, container order {iter_order:?})", sc.edges),
            ));
            break;
        }
        if seen.len() != sc.n || listed.iter().any(|c| c.is_empty()) {
            result = Some(Violation::new(
                "not-a-partition",
                format!("components {listed:?} do not cover the {} members exactly once (edges {:?}, container order {iter_order:?})", sc.n, sc.edges),
            ));
            break;
        }
        let got_set: BTreeSet<BTreeSet<usize>> = listed.iter().map(|c| c.iter().copied().collect()).collect();
        if got_set != want {
            result = Some(Violation::new(
                "wrong-components",
                format!(
                    "scc() = {listed:?}, strongly connected components are {want:?} (edges {:?}, container order {iter_order:?})",
                    sc.edges
                ),
            ));
            break;
        }
    }
    if orders_seen.len() > 1 {
        stats.inc("probe_container_order_differed_between_instances");
    }
    if F::SYNC {
        Solo::uninstall();
    }
    result
}

impl Engine for Scc {
    type Sc = SccSc;

    fn name(&self) -> &'static str {
        "scc"
    }

    fn generate(&self, rng: &mut Rng, tier: Tier) -> SccSc {
        let flavour = if rng.coin() { "digraph" } else { "sync_digraph" }.to_string();
        let small = rng.chance(55, 100);
        let n = if small { rng.range(1, 4) } else { rng.range(5, if tier == Tier::Quick { 16 } else { 30 }) };
        let mut edges = Vec::new();
        let mut next = 100u64;
        let mut push = |edges: &mut Vec<(usize, usize, u64)>, u: usize, v: usize| {
            next += 1;
            edges.push((u, v, next));
        };
        // swarm: shape of the graph varies per run
        match rng.below(5) {
            0 => {
                // sparse random
                let m = rng.below(n * 2 + 1);
                for _ in 0..m {
                    let (u, v) = (rng.below(n), rng.below(n));
                    push(&mut edges, u, v);
                }
            }
            1 => {
                // dense random
                let m = rng.below(n * n + 1);
                for _ in 0..m {
                    let (u, v) = (rng.below(n), rng.below(n));
                    push(&mut edges, u, v);
                }
            }
            2 => {
                // several cycles sharing nodes (figure-eights), plus chords
                let cycles = rng.range(1, 4);
                for _ in 0..cycles {
                    let len = rng.range(1, n.min(6));
                    let mut members: Vec<usize> = (0..n).collect();
                    rng.shuffle(&mut members);
                    members.truncate(len);
                    for i in 0..members.len() {
                        push(&mut edges, members[i], members[(i + 1) % members.len()]);
                    }
                }
                for _ in 0..rng.below(n + 1) {
                    let (u, v) = (rng.below(n), rng.below(n));
                    push(&mut edges, u, v);
                }
            }
            3 => {
                // DAG (u < v) with a few back edges
                for u in 0..n {
                    for v in (u + 1)..n {
                        if rng.chance(1, 3) {
                            push(&mut edges, u, v);
                        }
                    }
                }
                for _ in 0..rng.below(3) {
                    let (u, v) = (rng.below(n), rng.below(n));
                    push(&mut edges, u.max(v), u.min(v));
                }
            }
            _ => {
                // chain of components
                let mut i = 0;
                while i < n {
                    let len = rng.range(1, 4).min(n - i);
                    for j in 0..len {
                        if len > 1 || rng.chance(1, 4) {
                            push(&mut edges, i + j, i + (j + 1) % len);
                        }
                    }
                    if i + len < n && rng.chance(2, 3) {
                        push(&mut edges, i + rng.below(len), i + len);
                    }
                    i += len;
                }
            }
        }
        // parallel edges and self-loops on top
        for _ in 0..rng.below(3) {
            if !edges.is_empty() && rng.coin() {
                let (u, v, _) = edges[rng.below(edges.len())];
                push(&mut edges, u, v);
            } else {
                let u = rng.below(n);
                push(&mut edges, u, u);
            }
        }
        rng.shuffle(&mut edges);
        let ni = rng.range(2, 4);
        let instances = (0..ni)
            .map(|_| {
                let mut order: Vec<usize> = (0..n).collect();
                rng.shuffle(&mut order);
                (rng.next_u64(), order)
            })
            .collect();
        SccSc {
            flavour,
            n,
            edges,
            instances,
        }
    }

    fn execute(&self, sc: &SccSc, stats: &mut Stats) -> Option<(Violation, SccSc)> {
        stats.inc(&format!("runs_{}", sc.flavour));
        let r = with_flavour!(sc.flavour.as_str(), F, run::<F>(sc, stats));
        r.map(|v| (v, sc.clone()))
    }

    fn shrink(&self, sc: &SccSc) -> Vec<SccSc> {
        let mut out = Vec::new();
        if sc.instances.len() > 1 {
            for i in 0..sc.instances.len() {
                let mut c = sc.clone();
                c.instances = vec![sc.instances[i].clone()];
                out.push(c);
            }
        }
        for k in (0..sc.n).rev() {
            if sc.n > 1 {
                if let Some(edges) = gen::remap_edges(&sc.edges, k) {
                    let mut c = sc.clone();
                    c.n -= 1;
                    c.edges = edges;
                    for (_, o) in c.instances.iter_mut() {
                        o.retain(|x| *x != k);
                        for x in o.iter_mut() {
                            if *x > k {
                                *x -= 1;
                            }
                        }
                    }
                    out.push(c);
                }
            }
        }
        for e in gen::shrink_vec(&sc.edges, 120) {
            let mut c = sc.clone();
            c.edges = e;
            out.push(c);
        }
        out
    }

    fn size(&self, sc: &SccSc) -> usize {
        sc.edges.len() * 4 + sc.n * 2 + sc.instances.len()
    }
}
