//! One-task history engine: C03 (contract), C01 (mirror), C02 (symmetry).
//! The simulator controls the history and the provenance of every handle; in
//! the sync flavours the lock seam reports a self-deadlock instead of hanging.

use crate::flavour::Flavour;
use crate::gen::{self, GenCfg};
use crate::locks::{caught, Caught, Solo};
use crate::model::{Model, Obs, Op};
use crate::rng::Rng;
use crate::runner::{Engine, Stats, Tier, Violation};
use crate::world::World;
use crate::{hashseam, with_flavour};
use serde::{Deserialize, Serialize};

#[derive(Clone, Copy, Debug, PartialEq, Eq)]
pub enum Verdict {
    Contract,
    Mirror,
    Symmetry,
}

#[derive(Clone, Debug, Serialize, Deserialize)]
pub struct HistSc {
    pub flavour: String,
    pub prios: Vec<u32>,
    pub in_graph: bool,
    pub hash_seed: u64,
    pub initial: Vec<(usize, usize, u64)>,
    pub ops: Vec<Op>,
    /// C01/C02 monitor: how much is observed (0 lists, 1 + degrees/predicates, 2 + all lookups)
    #[serde(default = "two")]
    pub monitor: u8,
    /// C01/C02 monitor: evaluated after every `check_every`-th call and after the last one
    #[serde(default = "one")]
    pub check_every: usize,
    /// a *wear* run (the fields above except `flavour` and `hash_seed` are then unused): see `Wear`
    #[serde(default)]
    pub wear: Option<Wear>,
}

/// Wear: state that only goes wrong after MANY changes of one list - a revision counter, epoch
/// or generation number that wraps between a lookup and the call that trusts what the lookup
/// left behind. Nodes: 0 = the worn node u, 1 = v (joined to u by two parallel edges with another
/// entry between them), 2 = x (the entry in front), 3 = z (what the wear connects to).
///   1. a lookup of v on u;  2. the entry in front goes away;  3. `k` connects grow the same list,
///   with no lookup on u in between;  4. one of the two u-v edges is removed.
/// Afterwards both endpoints must have dropped the SAME edge. Only the end state is compared
/// (and the lists are up to 65 538 entries long), so a run costs a few milliseconds.
#[derive(Clone, Debug, Serialize, Deserialize, PartialEq)]
pub struct Wear {
    pub k: usize,
    /// 0: u's outgoing (undirected: created) list wears, 1: its incoming list
    pub side: u8,
    /// 0 is_connected, 1 find_outbound / find_inbound / find_adjacent, 2 a refused try_connect, 3 none
    pub lookup: u8,
    /// 0: x leaves by `isolate`, 1: by `disconnect`, 2: stays
    pub front: u8,
    /// undirected only: the final `disconnect` is called on v instead of u
    pub last_by_other: bool,
    /// the worn list before anything happens: 0 [x, v:e1, v:e2, z], 1 [v:e1, x, v:e2, z],
    /// 2 [x, v:e1, z, v:e2], 3 [z, v:e1, x, v:e2]
    #[serde(default)]
    pub layout: u8,
}

fn two() -> u8 {
    2
}
fn one() -> usize {
    1
}

pub struct Hist {
    pub verdict: Verdict,
}

impl Hist {
    fn flavours(&self) -> &'static [&'static str] {
        match self.verdict {
            Verdict::Contract => &["digraph", "ungraph", "sync_digraph", "sync_ungraph"],
            Verdict::Mirror => &["digraph", "sync_digraph"],
            Verdict::Symmetry => &["ungraph", "sync_ungraph"],
        }
    }
}

fn order_preserved(before: &[(usize, u64)], after: &[(usize, u64)]) -> bool {
    let a: Vec<&(usize, u64)> = before.iter().filter(|x| after.iter().any(|y| y.1 == x.1)).collect();
    let b: Vec<&(usize, u64)> = after.iter().filter(|x| before.iter().any(|y| y.1 == x.1)).collect();
    a == b
}

fn run_wear<F: Flavour>(w: &Wear, verdict: Verdict, stats: &mut Stats, solo: &Solo) -> Option<(Violation, usize)> {
    use crate::payload::EVal;
    stats.inc("wear_runs");
    stats.mark("wear_changes_between_lookup_and_use", w.k as u64);
    solo.set_budget(40 * w.k as u64 + 1_000_000);
    let world = World::<F>::new(&[0, 1, 2, 3], false);
    let (u, v, x, z) = (0usize, 1usize, 2usize, 3usize);
    let mut model = Model::new(F::DIRECTED, 4);
    let mut next = 100u64;
    let pair = |a: usize| if w.side == 0 { (u, a) } else { (a, u) };
    let order = match w.layout % 4 {
        0 => [x, v, v, z],
        1 => [v, x, v, z],
        2 => [x, v, z, v],
        _ => [z, v, x, v],
    };
    for a in order {
        next += 1;
        let (s, t) = pair(a);
        F::connect(&world.nodes[s], &world.nodes[t], EVal::new(next));
        model.edges.push(crate::model::MEdge { val: next, u: s, v: t });
    }
    let fail = |class: &str, what: String| Some((Violation::new(class.to_string(), format!("wear run {w:?}: {what}")), 0usize));
    let body = caught(|| {
        // 1. the lookup
        let (s, t) = pair(v);
        match w.lookup {
            0 => {
                let _ = if w.side == 0 { F::is_connected(&world.nodes[u], v) } else { F::find_in(&world.nodes[u], v).is_some() };
            }
            1 => {
                let _ = if w.side == 0 { F::find_out(&world.nodes[u], v).is_some() } else { F::find_in(&world.nodes[u], v).is_some() };
            }
            2 => {
                // refused: the pair is connected (on side 1 the caller is v; u's incoming list is
                // then looked at through find_inbound as well)
                let _ = F::try_connect(&world.nodes[s], &world.nodes[t], EVal::new(99));
                if w.side == 1 {
                    let _ = F::find_in(&world.nodes[u], v);
                }
            }
            _ => {}
        }
        // 2. the entry in front leaves
        match w.front {
            0 => F::isolate(&world.nodes[x]),
            1 => {
                let (s, t) = pair(x);
                let _ = F::disconnect(&world.nodes[s], t);
            }
            _ => {}
        }
        // 3. the wear
        for i in 0..w.k {
            let (s, t) = pair(z);
            F::connect(&world.nodes[s], &world.nodes[t], EVal::new(1000 + i as u64));
        }
        // 4. one of the two u-v edges goes
        let (s, t) = pair(v);
        let (caller, key) = if !F::DIRECTED && w.last_by_other { (t, s) } else { (s, t) };
        F::disconnect(&world.nodes[caller], key)
    });
    if w.front != 2 {
        model.edges.retain(|e| e.u != x && e.v != x);
    }
    for i in 0..w.k {
        let (s, t) = pair(z);
        model.edges.push(crate::model::MEdge { val: 1000 + i as u64, u: s, v: t });
    }
    let removed = match body {
        Caught::Ok(Ok(val)) => val.0,
        Caught::Ok(Err(e)) => return fail("contract:disconnect", format!("the final disconnect of an existing edge failed: {e:?}")),
        Caught::Panic(m) | Caught::Abort(m) => return fail("panic:wear", format!("a call did not return: {m}")),
    };
    match model.edges.iter().position(|e| e.val == removed && (e.u == v || e.v == v)) {
        Some(i) => {
            model.edges.remove(i);
        }
        None => return fail("contract:disconnect", format!("the final disconnect returned {removed}, which is not the value of an edge between the two nodes")),
    }
    let check = caught(|| match verdict {
        Verdict::Contract => world.compare_with(&model),
        Verdict::Mirror => world.check_invariant_level(1),
        // (the general symmetry monitor counts every entry against every other; on lists of
        // 65 000 entries the same comparison is done here by sorting)
        Verdict::Symmetry => {
            let mut seen: std::collections::BTreeMap<(usize, usize, u64), [usize; 2]> = std::collections::BTreeMap::new();
            for a in 0..world.n() {
                for (b, val) in world.lists(a).0 {
                    let (lo, hi) = (a.min(b), a.max(b));
                    seen.entry((lo, hi, val)).or_insert([0, 0])[(a != lo) as usize] += 1;
                }
                if F::out_degree(&world.nodes[a]) != world.lists(a).0.len() {
                    return Err(format!("node {a}: degree {} but {} entries listed", F::out_degree(&world.nodes[a]), world.lists(a).0.len()));
                }
            }
            for ((a, b, val), c) in seen {
                let ok = if a == b { c[0] % 2 == 0 } else { c[0] == c[1] };
                if !ok {
                    return Err(format!("edge {{{a},{b}}} value {val}: listed {}x at {a} but {}x at {b}", c[0], c[1]));
                }
            }
            Ok(())
        }
    });
    match check {
        Caught::Ok(Ok(())) => None,
        Caught::Ok(Err(m)) => fail(
            match verdict {
                Verdict::Contract => "effect:disconnect",
                Verdict::Mirror => "mirror",
                Verdict::Symmetry => "symmetry",
            },
            m,
        ),
        Caught::Panic(m) | Caught::Abort(m) => fail("panic:wear", format!("the graph cannot be read back: {m}")),
    }
}

fn run<F: Flavour>(sc: &HistSc, verdict: Verdict, stats: &mut Stats) -> Option<(Violation, usize)> {
    crate::keys::set_style(crate::keys::style_from(sc.hash_seed));
    hashseam::set_seed(sc.hash_seed);
    let solo = Solo::new();
    if F::SYNC {
        solo.install();
    }
    let res = match &sc.wear {
        Some(w) => run_wear::<F>(w, verdict, stats, &solo),
        None => run_inner::<F>(sc, verdict, stats, &solo),
    };
    if F::SYNC {
        let st = solo.stats();
        stats.add("lock_acquisitions", st.acquisitions);
        stats.add("recursive_read_acquisitions", st.recursive_reads);
        stats.add("self_deadlocks_detected", st.self_deadlocks);
        Solo::uninstall();
        if let Some(h) = solo.harness_error() {
            eprintln!("HARNESS-ERROR: {h}");
            std::process::exit(2);
        }
    }
    res
}

fn run_inner<F: Flavour>(sc: &HistSc, verdict: Verdict, stats: &mut Stats, solo: &Solo) -> Option<(Violation, usize)> {
    let world = World::<F>::new(&sc.prios, sc.in_graph);
    if F::SYNC {
        for k in 0..world.n() {
            solo.discover(k);
            let _ = F::out_degree(&world.nodes[k]);
        }
    }
    let mut model = Model::new(F::DIRECTED, sc.prios.len());
    world.seed_edges(&sc.initial);
    for (u, v, e) in &sc.initial {
        model.edges.push(crate::model::MEdge { val: *e, u: *u, v: *v });
    }
    let mut failed_before = false;
    for (i, op) in sc.ops.iter().enumerate() {
        solo.set_budget(200_000 + 16 * (world.n() as u64) * (world.n() as u64));
        let before = if !F::DIRECTED && verdict == Verdict::Contract {
            match caught(|| (0..world.n()).map(|u| world.lists(u).0).collect::<Vec<_>>()) {
                Caught::Ok(v) => Some(v),
                _ => None,
            }
        } else {
            None
        };
        if op.is_mutation() && !matches!(op.prov(), crate::model::Prov::Own | crate::model::Prov::Clone | crate::model::Prov::Search | crate::model::Prov::PathNode) {
            if let Caught::Ok(true) = caught(|| world.provenance_available(op.subject(), op.prov())) {
                stats.inc(&format!("provenance_realised_{:?}", op.prov()).to_lowercase());
            }
        }
        let obs = world.exec(op);
        stats.inc("calls");
        stats.inc(&format!("op_{}", op.name()));
        stats.mark("handle_provenance_requested", op.prov() as u64);
        let shape_before = model.shape_hash();
        if model.has_self_loop() {
            stats.inc("calls_in_state_with_self_loop");
        }
        if model.has_parallel() {
            stats.inc("calls_in_state_with_parallel_edges");
        }
        match (&obs, op) {
            (Obs::Res(Err(_)), _) => stats.inc("failing_try_connect"),
            (Obs::ResVal(Err(_)), _) => stats.inc("failing_disconnect"),
            (Obs::ResVal(Ok(_)), Op::Disconnect { u, k, .. }) => {
                if u == k {
                    stats.inc("self_loop_disconnect");
                }
                if model.between(*u, *k).len() > 1 {
                    stats.inc("parallel_edge_disconnect");
                }
            }
            (_, Op::Isolate { u, .. }) if model.incident(*u) == 0 => stats.inc("isolate_on_orphan"),
            _ => {}
        }
        let outcome_tag = match &obs {
            Obs::Panic(_) => 1u64,
            Obs::Abort(_) => 2,
            Obs::Res(Err(_)) | Obs::ResVal(Err(_)) => 3,
            _ => 0,
        };
        if model.n <= 3 && model.edges.len() <= 4 && op.is_mutation() {
            // coverage of the small abstract space the property text singles out:
            // (flavour, node count, creation-ordered edge shape, operation with operands)
            let opk = match op {
                Op::Connect { u, v, .. } => (0u64, *u, *v),
                Op::TryConnect { u, v, .. } => (1, *u, *v),
                Op::Disconnect { u, k, .. } => (2, *u, (*k).min(3)),
                Op::Isolate { u, .. } => (3, *u, 0),
                _ => (9, 0, 0),
            };
            stats.mark(
                "small_state_x_operation",
                crate::rng::mix(shape_before ^ crate::rng::fnv(sc.flavour.as_bytes()) ^ (opk.0 << 40) ^ ((opk.1 as u64) << 32) ^ ((opk.2 as u64) << 24)),
            );
        }
        stats.mark(
            "state_op_outcome",
            crate::rng::mix(shape_before ^ crate::rng::fnv(op.name().as_bytes()) ^ (outcome_tag << 56) ^ ((op.subject() as u64) << 48)),
        );
        match verdict {
            Verdict::Contract => {
                if let (Op::Search { .. }, true) = (op, obs.is_failure()) {
                    // C03 speaks about the four edge operations; a traversal that fails on a
                    // frozen graph belongs to C04-C10 (not decided by this technique)
                    stats.inc("traversal_failures_not_a_C03_verdict");
                    stats.note(format!("traversal did not return normally (outside C03): {op:?}: {obs:?}"));
                    continue;
                }
                let class = match &obs {
                    Obs::Panic(_) => Some(format!("panic:{}", op.name())),
                    Obs::Abort(m) if m.starts_with("self-deadlock") => Some(format!("deadlock:{}", op.name())),
                    Obs::Abort(_) => Some(format!("hang:{}", op.name())),
                    _ => None,
                };
                if let Some(c) = class {
                    return Some((
                        Violation::new(c, format!("call #{i} {op:?} in state {:?}: {obs:?}", model.edges)),
                        i,
                    ));
                }
                let pre = model.clone();
                if let Err(m) = model.apply(op, &obs) {
                    return Some((
                        Violation::new(
                            format!("contract:{}", op.name()),
                            format!("call #{i} {op:?} in state {:?}: {m}", pre.edges),
                        ),
                        i,
                    ));
                }
                match caught(|| world.compare_with(&model)) {
                    Caught::Ok(Ok(())) => {}
                    Caught::Ok(Err(m)) => {
                        return Some((
                            Violation::new(
                                format!("effect:{}", op.name()),
                                format!("after call #{i} {op:?} (returned {obs:?}) in state {:?}: {m}", pre.edges),
                            ),
                            i,
                        ))
                    }
                    Caught::Panic(m) | Caught::Abort(m) => {
                        return Some((
                            Violation::new(
                                format!("effect:{}", op.name()),
                                format!("after call #{i} {op:?}: reading the graph back failed: {m}"),
                            ),
                            i,
                        ))
                    }
                }
                if let Some(before) = before {
                    for u in 0..world.n() {
                        let after = world.lists(u).0;
                        if !order_preserved(&before[u], &after) {
                            return Some((
                                Violation::new(
                                    format!("effect:{}", op.name()),
                                    format!(
                                        "call #{i} {op:?} changed the relative order of existing edges at node {u}: {:?} -> {:?}",
                                        before[u], after
                                    ),
                                ),
                                i,
                            ));
                        }
                    }
                }
            }
            Verdict::Mirror | Verdict::Symmetry => {
                model.step(op);
                if obs.is_failure() {
                    failed_before = true;
                    stats.note(format!("a call did not return normally ({}): decided under C03", op.name()));
                }
                let name = if verdict == Verdict::Mirror { "mirror" } else { "symmetry" };
                let due = (i + 1) % sc.check_every.max(1) == 0 || i + 1 == sc.ops.len() || obs.is_failure();
                if !due {
                    stats.mark("abstract_states", model.shape_hash());
                    continue;
                }
                stats.inc(&format!("invariant_evaluations_level_{}", sc.monitor));
                match caught(|| world.check_invariant_level(sc.monitor)) {
                    Caught::Ok(Ok(())) => {}
                    Caught::Ok(Err(m)) => {
                        return Some((
                            Violation::new(name, format!("after call #{i} {op:?} (returned {obs:?}): {m}")),
                            i,
                        ))
                    }
                    Caught::Panic(m) | Caught::Abort(m) => {
                        if failed_before {
                            // the graph can no longer be observed (poisoned lock): C03's finding
                            stats.inc("runs_unobservable_after_failed_call");
                            return None;
                        }
                        return Some((
                            Violation::new(name, format!("after call #{i} {op:?}: the node cannot be read back: {m}")),
                            i,
                        ));
                    }
                }
            }
        }
        stats.mark("abstract_states", model.shape_hash());
        if let Op::Connect { u, v, .. } = op {
            let l = model.out(*u).len().max(model.inn(*v).len());
            let distinct: std::collections::BTreeSet<usize> = model.out(*u).iter().chain(model.inn(*u).iter()).map(|x| x.0).collect();
            if distinct.len() >= 17 {
                stats.inc("probe_node_with_ge_17_distinct_neighbours");
            }
            if l >= 257 {
                stats.inc("probe_list_len_ge_257");
            } else if l >= 33 {
                stats.inc("probe_list_len_ge_33");
            } else if l >= 17 {
                stats.inc("probe_list_len_ge_17");
            } else if l >= 9 {
                stats.inc("probe_list_len_ge_9");
            }
        }
    }
    None
}

impl Hist {
    /// Uniform sampling of the small abstract space the properties single out (<= 3 nodes,
    /// <= 4 live edges, every operation with every operand), so that its coverage can be stated.
    fn generate_uniform_small(&self, rng: &mut Rng) -> HistSc {
        let fl = self.flavours();
        let mut flavour = fl[rng.below(fl.len())].to_string();
        if let Some(f) = crate::runner::only_flavour() {
            if fl.contains(&f.as_str()) {
                flavour = f;
            }
        }
        let n = *rng.pick(&[3usize, 3, 3, 3, 3, 3, 3, 2, 2, 1]);
        let k = *rng.pick(&[0usize, 1, 2, 3, 3, 4, 4, 4, 4, 4]);
        let mut next_edge = 100;
        let mut initial = Vec::new();
        for _ in 0..k {
            next_edge += 1;
            initial.push((rng.below(n), rng.below(n), next_edge));
        }
        let mut ops = Vec::new();
        for _ in 0..rng.range(1, 3) {
            let h = *rng.pick(&crate::model::ALL_PROV);
            let (u, v) = (rng.below(n), rng.below(n));
            ops.push(match rng.below(33) {
                0..=8 => {
                    next_edge += 1;
                    Op::Connect { u, v, e: next_edge, h }
                }
                9..=17 => {
                    next_edge += 1;
                    Op::TryConnect { u, v, e: next_edge, h }
                }
                18..=29 => Op::Disconnect { u, k: if rng.chance(1, 4) { gen::NO_SUCH_KEY } else { v }, h },
                _ => Op::Isolate { u, h },
            });
        }
        HistSc {
            flavour,
            prios: (0..n).map(|_| rng.below(4) as u32).collect(),
            in_graph: rng.coin(),
            hash_seed: rng.next_u64(),
            initial,
            ops,
            monitor: *rng.pick(&[0u8, 1, 2]),
            check_every: 1,
            wear: None,
        }
    }
}

impl Hist {
    /// A hub with many DISTINCT neighbours (20-60 nodes, keys with one and two digits), edges in
    /// both directions, then removals around the hub.
    fn generate_star(&self, rng: &mut Rng) -> HistSc {
        let fl = self.flavours();
        let mut flavour = fl[rng.below(fl.len())].to_string();
        if let Some(f) = crate::runner::only_flavour() {
            if fl.contains(&f.as_str()) {
                flavour = f;
            }
        }
        let directed = flavour.contains("digraph");
        let n = rng.range(20, 60);
        let hub = rng.below(n);
        let mut m = Model::new(directed, n);
        let mut next_edge = 100;
        let mut initial = Vec::new();
        for v in 0..n {
            if v == hub && !rng.chance(1, 3) {
                continue;
            }
            for _ in 0..rng.range(1, 2) {
                next_edge += 1;
                let (a, b) = if rng.coin() { (hub, v) } else { (v, hub) };
                initial.push((a, b, next_edge));
                m.edges.push(crate::model::MEdge { val: next_edge, u: a, v: b });
            }
        }
        rng.shuffle(&mut initial);
        m.edges = initial.iter().map(|(u, v, e)| crate::model::MEdge { val: *e, u: *u, v: *v }).collect();
        let mut cfg = GenCfg::mutations_and_queries();
        cfg.w = [15, 8, 40, 6, 20, 8, 3];
        let mut ops = Vec::new();
        for _ in 0..rng.range(5, 60) {
            let op = if rng.chance(1, 10) {
                Op::Isolate { u: hub, h: *rng.pick(&cfg.provs) }
            } else {
                gen::gen_op(rng, &m, &mut next_edge, &cfg)
            };
            m.step(&op);
            ops.push(op);
        }
        HistSc {
            flavour,
            prios: (0..n).map(|_| rng.below(4) as u32).collect(),
            in_graph: rng.coin(),
            hash_seed: rng.next_u64(),
            initial,
            ops,
            monitor: *rng.pick(&[0u8, 1, 2]),
            check_every: *rng.pick(&[1usize, 1, 3]),
            wear: None,
        }
    }
}

impl Hist {
    fn generate_wear(&self, rng: &mut Rng) -> HistSc {
        let fl = self.flavours();
        let mut flavour = fl[rng.below(fl.len())].to_string();
        if let Some(f) = crate::runner::only_flavour() {
            if fl.contains(&f.as_str()) {
                flavour = f;
            }
        }
        let front = *rng.pick(&[0u8, 0, 1, 1, 2]);
        // the interesting totals are powers of two (a counter of b bits is back where it was);
        // the front removal is one change of its own
        let base = *rng.pick(&[256usize, 256, 256, 512, 1024, 4096, 4096, 4096, 8192, 65536, 65536]);
        let k = match rng.below(10) {
            0..=5 => base - (front != 2) as usize,
            6 => base,
            7 => base - 1,
            8 => base + 1,
            _ => base.saturating_sub(2),
        };
        HistSc {
            flavour,
            prios: vec![0, 1, 2, 3],
            in_graph: false,
            hash_seed: rng.next_u64(),
            initial: Vec::new(),
            ops: Vec::new(),
            monitor: 1,
            check_every: 1,
            wear: Some(Wear { k, side: rng.below(2) as u8, lookup: *rng.pick(&[0u8, 1, 1, 2, 3]), front, last_by_other: rng.coin(), layout: rng.below(4) as u8 }),
        }
    }

    /// A hub with 1030-2100 incident edges - several hundred distinct neighbours, some of them
    /// joined by two or three parallel edges - then a handful of removals and lookups around it.
    fn generate_mega_hub(&self, rng: &mut Rng) -> HistSc {
        let fl = self.flavours();
        let mut flavour = fl[rng.below(fl.len())].to_string();
        if let Some(f) = crate::runner::only_flavour() {
            if fl.contains(&f.as_str()) {
                flavour = f;
            }
        }
        let spokes = rng.range(400, 700);
        let n = spokes + 1;
        let mut next_edge = 100;
        let mut initial = Vec::new();
        let target = *rng.pick(&[1030usize, 1100, 2100]);
        let mut doubled = Vec::new();
        while initial.len() < target {
            let x = 1 + rng.below(spokes);
            next_edge += 1;
            if initial.iter().any(|(a, b, _): &(usize, usize, u64)| *a == x || *b == x) {
                doubled.push(x);
            }
            if rng.coin() {
                initial.push((0, x, next_edge));
            } else {
                initial.push((x, 0, next_edge));
            }
        }
        let h = crate::model::Prov::Own;
        let mut ops = Vec::new();
        for _ in 0..rng.range(4, 14) {
            let x = if !doubled.is_empty() && rng.chance(3, 4) { *rng.pick(&doubled) } else { 1 + rng.below(spokes) };
            ops.push(match rng.below(8) {
                0..=2 => Op::Disconnect { u: 0, k: x, h },
                3 => Op::Disconnect { u: x, k: 0, h },
                4 => Op::IsConnected { u: 0, k: x },
                5 => Op::FindOut { u: 0, k: x },
                6 => {
                    next_edge += 1;
                    Op::TryConnect { u: 0, v: x, e: next_edge, h }
                }
                _ => Op::IsConnected { u: x, k: 0 },
            });
        }
        if rng.chance(1, 3) {
            ops.push(Op::Isolate { u: 0, h });
        }
        HistSc {
            flavour,
            prios: (0..n).map(|_| rng.below(4) as u32).collect(),
            in_graph: false,
            hash_seed: rng.next_u64(),
            initial,
            ops,
            monitor: *rng.pick(&[0u8, 2, 2]),
            check_every: 1000,
            wear: None,
        }
    }

    /// A pile: 256-330 parallel edges between one pair (both orientations mixed), then as many
    /// removals of that pair, with lookups in between - counts per neighbour that wrap or saturate.
    fn generate_pile(&self, rng: &mut Rng) -> HistSc {
        let fl = self.flavours();
        let mut flavour = fl[rng.below(fl.len())].to_string();
        if let Some(f) = crate::runner::only_flavour() {
            if fl.contains(&f.as_str()) {
                flavour = f;
            }
        }
        let n = rng.range(2, 3);
        let (a, b) = (0, 1);
        let mut next_edge = 100;
        let mut initial = Vec::new();
        let pile = rng.range(256, 330);
        let one_way = rng.coin();
        for _ in 0..pile {
            next_edge += 1;
            if one_way || rng.chance(3, 4) {
                initial.push((a, b, next_edge));
            } else {
                initial.push((b, a, next_edge));
            }
        }
        if n == 3 {
            next_edge += 1;
            initial.push((a, 2, next_edge));
        }
        let h = crate::model::Prov::Own;
        let mut ops = Vec::new();
        for i in 0..rng.range(250, pile + 5) {
            ops.push(Op::Disconnect { u: a, k: b, h });
            if i % 64 == 63 || i > 250 {
                ops.push(match rng.below(3) {
                    0 => Op::IsConnected { u: a, k: b },
                    1 => {
                        next_edge += 1;
                        Op::TryConnect { u: a, v: b, e: next_edge, h }
                    }
                    _ => Op::FindOut { u: a, k: b },
                });
            }
        }
        HistSc {
            flavour,
            prios: (0..n).map(|_| rng.below(4) as u32).collect(),
            in_graph: false,
            hash_seed: rng.next_u64(),
            initial,
            ops,
            monitor: *rng.pick(&[0u8, 1]),
            check_every: 16,
            wear: None,
        }
    }
}

impl Engine for Hist {
    type Sc = HistSc;

    fn name(&self) -> &'static str {
        "hist"
    }

    fn generate(&self, rng: &mut Rng, tier: Tier) -> HistSc {
        if rng.chance(1, 4) {
            return self.generate_uniform_small(rng);
        }
        if rng.chance(1, 60) {
            return self.generate_star(rng);
        }
        if rng.chance(1, 3000) {
            return self.generate_pile(rng);
        }
        if rng.chance(1, 12_000) {
            return self.generate_mega_hub(rng);
        }
        if rng.chance(1, 1500) {
            return self.generate_wear(rng);
        }
        let fl = self.flavours();
        let mut flavour = fl[rng.below(fl.len())].to_string();
        if let Some(f) = crate::runner::only_flavour() {
            if fl.contains(&f.as_str()) {
                flavour = f;
            }
        }
        let directed = flavour.contains("digraph");
        let small = rng.chance(if tier == Tier::Quick { 70 } else { 50 }, 100);
        let n = if small { rng.range(1, 3) } else { rng.range(4, 8) };
        let nops = if small {
            rng.range(1, 14)
        } else if tier == Tier::Quick {
            rng.range(15, 120)
        } else {
            rng.range(15, 300)
        };
        let prios: Vec<u32> = (0..n).map(|_| rng.below(4) as u32).collect();
        let mut m = Model::new(directed, n);
        let mut next_edge = 100;
        let initial = gen::gen_initial(rng, &mut m, &mut next_edge, if small { 4 } else { 10 });
        let mut cfg = GenCfg::mutations_and_queries();
        // swarm: vary the mix per run
        match rng.below(4) {
            0 => cfg.w = [40, 5, 30, 2, 10, 5, 1],
            1 => cfg.w = [20, 30, 20, 10, 15, 5, 2],
            2 => cfg.w = [25, 10, 40, 10, 10, 5, 0],
            _ => {}
        }
        if rng.chance(1, 4) {
            cfg.provs = vec![crate::model::Prov::Own];
        }
        let mut nops = nops;
        if !small && rng.chance(1, 4) {
            // long lists: most edge operations hit one pair (list lengths beyond small Vec capacities)
            cfg.hub = Some((rng.below(n), rng.below(n)));
            cfg.w = [55, 5, 22, 1, 10, 5, 2];
            if rng.chance(1, 40) {
                // now and then far beyond (counters narrower than usize, quadratic paths)
                nops = rng.range(300, 700);
                cfg.w = [70, 2, 20, 1, 4, 2, 1];
            }
        }
        let mut ops: Vec<Op> = Vec::with_capacity(nops);
        for _ in 0..nops {
            // now and then the previous call is simply repeated
            let op = match ops.last() {
                Some(prev) if rng.chance(1, 12) => match prev.clone() {
                    Op::Connect { u, v, h, .. } => {
                        next_edge += 1;
                        Op::Connect { u, v, e: next_edge, h }
                    }
                    Op::TryConnect { u, v, h, .. } => {
                        next_edge += 1;
                        Op::TryConnect { u, v, e: next_edge, h }
                    }
                    o => o,
                },
                _ => gen::gen_op(rng, &m, &mut next_edge, &cfg),
            };
            m.step(&op);
            ops.push(op);
        }
        HistSc {
            flavour,
            prios,
            in_graph: rng.coin(),
            hash_seed: rng.next_u64(),
            initial,
            ops,
            monitor: *rng.pick(&[0u8, 0, 1, 2, 2]),
            check_every: *rng.pick(&[1usize, 1, 1, 2, 5, 1000]),
            wear: None,
        }
    }

    fn execute(&self, sc: &HistSc, stats: &mut Stats) -> Option<(Violation, HistSc)> {
        stats.inc(&format!("runs_{}", sc.flavour));
        let v = self.verdict;
        let r = with_flavour!(sc.flavour.as_str(), F, run::<F>(sc, v, stats));
        r.map(|(viol, i)| {
            let mut p = sc.clone();
            p.ops.truncate(i + 1);
            (viol, p)
        })
    }

    fn shrink(&self, sc: &HistSc) -> Vec<HistSc> {
        let mut out = Vec::new();
        if let Some(w) = &sc.wear {
            // fewer changes: the same distance from a smaller power of two
            const BASES: [usize; 6] = [256, 512, 1024, 4096, 8192, 65536];
            let near = *BASES.iter().min_by_key(|b| (**b as isize - w.k as isize).abs()).unwrap();
            let delta = near as isize - w.k as isize;
            for b in BASES.iter().filter(|b| **b < near) {
                let mut c = sc.clone();
                c.wear.as_mut().unwrap().k = (*b as isize - delta).max(1) as usize;
                out.push(c);
            }
            return out;
        }
        // drop nodes nobody uses
        for k in (0..sc.prios.len()).rev() {
            if sc.prios.len() > 1 {
                if let (Some(ops), Some(init)) = (gen::remap_ops(&sc.ops, k), gen::remap_edges(&sc.initial, k)) {
                    let mut c = sc.clone();
                    c.prios.remove(k);
                    c.ops = ops;
                    c.initial = init;
                    out.push(c);
                }
            }
        }
        for ops in gen::shrink_vec(&sc.ops, 200) {
            if ops.is_empty() {
                continue;
            }
            let mut c = sc.clone();
            c.ops = ops;
            out.push(c);
        }
        for init in gen::shrink_vec(&sc.initial, 60) {
            let mut c = sc.clone();
            c.initial = init;
            out.push(c);
        }
        if sc.in_graph {
            let mut c = sc.clone();
            c.in_graph = false;
            c.ops = c.ops.iter().map(gen::plain_prov).collect();
            out.push(c);
        }
        if sc.ops.iter().any(|o| o.prov() != crate::model::Prov::Own) {
            let mut c = sc.clone();
            c.ops = c.ops.iter().map(gen::plain_prov).collect();
            out.push(c);
        }
        // turn an initial edge into nothing is covered above; turn leading
        // connect ops into initial edges to shorten the history
        if let Some(Op::Connect { u, v, e, .. }) = sc.ops.first() {
            if sc.ops.len() > 1 {
                let mut c = sc.clone();
                c.initial.push((*u, *v, *e));
                c.ops.remove(0);
                out.push(c);
            }
        }
        out
    }

    fn size(&self, sc: &HistSc) -> usize {
        sc.wear.as_ref().map(|w| w.k / 8 + (w.lookup != 3) as usize + (w.front != 2) as usize).unwrap_or(0)
            + sc.ops.len() * 8
            + sc.initial.len() * 4
            + sc.prios.len() * 2
            + sc.in_graph as usize
            + sc.ops.iter().filter(|o| o.prov() != crate::model::Prov::Own).count()
    }
}
