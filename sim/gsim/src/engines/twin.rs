//! C15: the same seeded single-threaded call sequence on a plain flavour and
//! on its sync twin, with the same simulated hash seed; the two event logs are
//! diffed. No reference algorithm is involved.

use crate::engines::serde_eng::PlainDoc;
use crate::flavour::{DotSpec, Flavour, Wire};
use crate::gen::{self, GenCfg};
use crate::locks::{caught, Caught, Solo};
use crate::model::{Model, Obs, Op};
use crate::rng::Rng;
use crate::runner::{Engine, Stats, Tier, Violation};
use crate::world::World;
use crate::hashseam;
use serde::{Deserialize, Serialize};

#[derive(Clone, Debug, Serialize, Deserialize, PartialEq)]
pub enum TOp {
    Node(Op),
    Insert { u: usize },
    /// insert a DIFFERENT node object that carries the key of member `k` and already has an
    /// edge to node `nb` (the insert is refused; the object stays alive with the harness)
    InsertOther { k: usize, nb: usize },
    /// `u.try_connect(x)` where `x` is a DIFFERENT node object that carries the key of node `k`:
    /// whether the caller "already has an edge to that node" is a question about keys. If the
    /// call succeeds the new edge is taken away again at once, so that no node ever has two
    /// neighbours with one key.
    TryConnectTwin { u: usize, k: usize },
    /// `sole`: the harness drops its own handle first, so that the container holds the only one
    Remove {
        k: usize,
        #[serde(default)]
        sole: bool,
    },
    Get { k: usize },
    Index { k: usize },
    Contains { k: usize },
    Len,
    IsEmpty,
    ToVec,
    Iter,
    Roots,
    Leaves,
    Orphans,
    ToDot,
    ToDotAttr(DotSpec),
    Scc,
    Serialise { wire: Wire },
    /// serialise, deserialise, and describe the copy
    RoundTrip { wire: Wire },
    /// LAST call of a history only: a neighbour of `u` is dropped while still connected, then `u`
    /// is asked what needs no walk over its lists (degrees, root/leaf/orphan). (A later walk past
    /// the dead entry panics in every flavour, which is why nothing may follow.)
    Dangling { u: usize, towards: bool },
    /// deserialise a document no serialiser writes - a key declared twice with different values,
    /// repeated edges, self-loops, a missing edge list - and describe the result: which mention
    /// wins and what the copy looks like must not depend on the flavour
    DeHandWritten { wire: Wire, variant: u8 },
    /// compare the i-th edge of u with the j-th edge of v with `==`
    EdgeEq { u: usize, i: usize, v: usize, j: usize },
    EdgeReverse { u: usize, i: usize },
    /// `cmp`/`partial_cmp`/`<`/`<=`/`max` of two edges and `sort()` of a node's edges
    EdgeCmp { u: usize, i: usize, v: usize, j: usize },
    NodeCmp { u: usize, v: usize },
    /// The crate's own Dijkstra pattern: node values with an interior-mutable distance, a
    /// priority-first search whose `for_each` closure relaxes the far end of every edge it is
    /// handed - i.e. changes the value of nodes that may sit in the search's queue. Logged: the
    /// edges the closure saw, in order, the distances afterwards, and the search's result.
    Relax { root: usize, max: bool, target: Option<usize> },
    /// `for e in &node`
    IterInto { u: usize },
    /// the whole `Path` API on the result of a path / cycle search
    PathInfo { root: usize, spec: crate::model::SearchSpec },
    /// a loop over a node's edges (dir 0 out, 1 in, 2 `for e in &node`) or a traversal with a
    /// closure, whose body executes the given operations at the given steps: both flavours must
    /// yield the same edges and return the same results
    Loop { u: usize, dir: u8, spec: Option<crate::model::SearchSpec>, plan: Vec<(usize, Op)> },
    /// replace the container by `Graph::default()` / `with_capacity` holding the same members
    Recreate { capacity: Option<usize> },
    /// graphs built by the construction macros of the flavour
    MacroBuild,
}

#[derive(Clone, Debug, Serialize, Deserialize)]
pub struct TwinSc {
    /// "di" or "un"
    pub pair: String,
    pub prios: Vec<u32>,
    pub hash_seed: u64,
    pub initial: Vec<(usize, usize, u64)>,
    pub ops: Vec<TOp>,
}

pub struct Twin;

fn canon_obs(o: Obs) -> Obs {
    match o {
        // messages name files and cell/lock types: only the fact is comparable
        Obs::Panic(_) | Obs::Abort(_) => Obs::Panic(String::new()),
        o => o,
    }
}

fn sorted_keys<F: Flavour>(v: &[F::Node]) -> Obs {
    let mut k: Vec<usize> = v.iter().map(|n| F::key(n)).collect();
    k.sort();
    Obs::Keys(k)
}

fn canon_doc(bytes: &[u8], wire: Wire) -> Obs {
    let d: Result<PlainDoc, String> = if wire.is_cbor() {
        serde_cbor::from_slice(bytes).map_err(|e| e.to_string())
    } else {
        serde_json::from_slice(bytes).map_err(|e| e.to_string())
    };
    match d {
        Ok((mut nodes, mut edges)) => {
            nodes.sort();
            // per source the listed order is part of the form; sources in key order
            edges.sort_by_key(|e| e.0);
            Obs::Text(format!("{nodes:?}|{edges:?}"))
        }
        Err(e) => Obs::Text(format!("unreadable: {e}")),
    }
}

fn nth_edge<F: Flavour>(n: &F::Node, i: usize) -> Option<(F::Node, F::Node, crate::payload::EVal)> {
    let mut got = None;
    let mut c = 0;
    F::for_out(n, &mut |a, b, e| {
        if c == i {
            got = Some((a, b, e));
            false
        } else {
            c += 1;
            c < 10_000
        }
    });
    got
}

fn exec<F: Flavour>(w: &mut World<F>, extras: &mut Vec<F::Node>, op: &TOp) -> Obs {
    let g = |w: &World<F>| w.graph.as_ref().unwrap() as *const F::Graph;
    let _ = g;
    match op {
        TOp::Node(op) => w.exec_raw(op),
        TOp::Insert { u } => {
            let n = w.nodes[*u].clone();
            Obs::Bool(F::g_insert(w.graph.as_mut().unwrap(), n))
        }
        TOp::InsertOther { k, nb } => {
            // (only while nothing else with key k is adjacent to nb: neighbours are found by key,
            // and two neighbours with one key are outside every precondition; the edge is taken
            // away again before the call ends)
            if *k >= w.nodes.len() || *nb >= w.nodes.len() {
                return Obs::Unit;
            }
            let (a, b) = (&w.nodes[*k], &w.nodes[*nb]);
            if k == nb
                || !F::g_contains(w.graph.as_ref().unwrap(), *k)
                || F::is_connected(a, *nb)
                || F::is_connected(b, *k)
                || F::find_in(a, *nb).is_some()
                || F::find_in(b, *k).is_some()
            {
                return Obs::Unit;
            }
            let other = F::node_new(*k, crate::payload::NVal::new(1, 5000 + *k as u64));
            F::connect(&other, b, crate::payload::EVal::new(40_000));
            let r = F::g_insert(w.graph.as_mut().unwrap(), other.clone());
            let seen = (F::out_degree(&other), F::in_degree(b), F::is_connected(&other, *nb));
            let undone = F::disconnect(&other, *nb).map(|e| e.0).map_err(|_| ());
            let _ = extras;
            Obs::Text(format!("refused insert returned {r}; the other object then has {seen:?}; its edge: {undone:?}"))
        }
        TOp::TryConnectTwin { u, k } => {
            if *u >= w.nodes.len() || *k >= w.nodes.len() {
                return Obs::Unit;
            }
            let other = F::node_new(*k, crate::payload::NVal::new(1, 6000 + *k as u64));
            let r = F::try_connect(&w.nodes[*u], &other, crate::payload::EVal::new(41_000));
            let undone = if r.is_ok() { F::disconnect(&w.nodes[*u], *k).map(|e| e.0).map_err(|_| ()) } else { Err(()) };
            let left = (F::out_degree(&other), F::in_degree(&other));
            Obs::Text(format!("try_connect towards another object with the key of node {k} returned {r:?}; taken away again: {undone:?}; that object then has degrees {left:?}"))
        }
        TOp::Remove { k, sole } => {
            let own_is_member = *k < w.nodes.len() && F::g_get(w.graph.as_ref().unwrap(), *k).map(|n| F::vid(&n)) == Some(F::vid(&w.nodes[*k]));
            if *sole && own_is_member {
                let own = std::mem::replace(&mut w.nodes[*k], F::node_new(*k, crate::payload::NVal::new(0, 999_999)));
                drop(own);
                let r = F::g_remove(w.graph.as_mut().unwrap(), *k);
                let o = Obs::OptKey(r.as_ref().map(|n| F::key(n)));
                if let Some(n) = r {
                    w.nodes[*k] = n;
                }
                o
            } else {
                Obs::OptKey(F::g_remove(w.graph.as_mut().unwrap(), *k).map(|n| F::key(&n)))
            }
        }
        TOp::Get { k } => Obs::OptKey(F::g_get(w.graph.as_ref().unwrap(), *k).map(|n| F::key(&n))),
        TOp::Index { k } => {
            // indexing a key that is not a member panics by contract (like HashMap): not called
            if F::g_contains(w.graph.as_ref().unwrap(), *k) {
                Obs::Num(F::key(&F::g_index(w.graph.as_ref().unwrap(), *k)))
            } else {
                Obs::Unit
            }
        }
        TOp::Contains { k } => Obs::Bool(F::g_contains(w.graph.as_ref().unwrap(), *k)),
        TOp::Len => Obs::Num(F::g_len(w.graph.as_ref().unwrap())),
        TOp::IsEmpty => Obs::Bool(F::g_is_empty(w.graph.as_ref().unwrap())),
        TOp::ToVec => sorted_keys::<F>(&F::g_to_vec(w.graph.as_ref().unwrap())),
        TOp::Iter => {
            let mut k: Vec<usize> = F::g_iter(w.graph.as_ref().unwrap()).iter().map(|x| x.0).collect();
            k.sort();
            Obs::Keys(k)
        }
        TOp::Roots => F::g_roots(w.graph.as_ref().unwrap()).map(|v| sorted_keys::<F>(&v)).unwrap_or(Obs::Unsupported),
        TOp::Leaves => F::g_leaves(w.graph.as_ref().unwrap()).map(|v| sorted_keys::<F>(&v)).unwrap_or(Obs::Unsupported),
        TOp::Orphans => sorted_keys::<F>(&F::g_orphans(w.graph.as_ref().unwrap())),
        TOp::ToDot => {
            // statements grouped per member in container order: compare as sorted lines
            let t = F::g_to_dot(w.graph.as_ref().unwrap());
            let mut lines: Vec<&str> = t.lines().collect();
            lines.sort();
            Obs::Text(lines.join("\n"))
        }
        TOp::ToDotAttr(spec) => match F::g_to_dot_attr(w.graph.as_ref().unwrap(), *spec) {
            Some(t) => {
                let mut lines: Vec<&str> = t.lines().collect();
                lines.sort();
                Obs::Text(lines.join("\n"))
            }
            None => Obs::Unsupported,
        },
        TOp::Scc => match F::g_scc(w.graph.as_ref().unwrap()) {
            Some(c) => {
                let mut sets: Vec<Vec<usize>> = c
                    .iter()
                    .map(|x| {
                        let mut k: Vec<usize> = x.iter().map(|n| F::key(n)).collect();
                        k.sort();
                        k
                    })
                    .collect();
                sets.sort();
                Obs::Text(format!("{sets:?}"))
            }
            None => Obs::Unsupported,
        },
        TOp::Serialise { wire } => match F::g_ser(w.graph.as_ref().unwrap(), *wire) {
            Ok(b) => canon_doc(&b, *wire),
            Err(e) => Obs::Text(format!("error: {e}")),
        },
        TOp::RoundTrip { wire } => match F::g_ser(w.graph.as_ref().unwrap(), *wire) {
            Ok(b) => match F::g_de(&b, *wire) {
                Ok(g2) => {
                    let mut d: Vec<(usize, u32, Vec<(usize, u64)>, Vec<(usize, u64)>)> = F::g_iter(&g2)
                        .iter()
                        .map(|(k, n)| {
                            // (both sides serialise and rebuild under the same simulated hash
                            // seeds, so the copies' lists agree entry by entry: which endpoint
                            // of an undirected edge lists it first included)
                            let (o, i) = World::<F>::lists_of(n);
                            (*k, F::prio(n), o, i)
                        })
                        .collect();
                    d.sort();
                    Obs::Text(format!("{d:?}"))
                }
                // whether deserialisation succeeds must agree; the message wording may name types
                Err(_) => Obs::Text("deserialise error".into()),
            },
            Err(e) => Obs::Text(format!("error: {e}")),
        },
        TOp::Dangling { u, towards } => {
            if *u >= w.nodes.len() {
                return Obs::Unit;
            }
            let t = F::node_new(gen::NO_SUCH_KEY - 2, crate::payload::NVal::new(0, 8000));
            if *towards {
                F::connect(&w.nodes[*u], &t, crate::payload::EVal::new(42_000));
            } else {
                F::connect(&t, &w.nodes[*u], crate::payload::EVal::new(42_000));
            }
            drop(t);
            let x = &w.nodes[*u];
            let first = format!(
                "after a connected neighbour was dropped: out_degree {} in_degree {} is_orphan {} is_leaf {} is_root {}",
                F::out_degree(x),
                F::in_degree(x),
                F::is_orphan(x),
                F::is_leaf(x),
                F::is_root(x)
            );
            // and the very last thing: asking for the dead neighbour by key. Whether that call
            // returns at all (the pinned library panics on the dead entry) is part of what a
            // program observes; a handle to a released node would be worse than either answer.
            let dead = gen::NO_SUCH_KEY - 2;
            let last = match caught(|| (F::is_connected(x, dead), F::find_out(x, dead).is_some(), F::find_in(x, dead).is_some())) {
                Caught::Ok(r) => format!("lookup of the dead neighbour returned {r:?}"),
                _ => "lookup of the dead neighbour did not return".to_string(),
            };
            Obs::Text(format!("{first}; {last}"))
        }
        TOp::DeHandWritten { wire, variant } => {
            use crate::keys::kin_raw as kin;
            type Doc = (Vec<(usize, (u32, u64))>, Vec<(usize, usize, u64)>);
            let (a, b, c) = (kin(0), kin(1), kin(2));
            let doc: Doc = match variant % 4 {
                0 => (vec![(a, (1, 10)), (b, (2, 11)), (a, (3, 12))], vec![(a, b, 50), (b, a, 51)]),
                1 => (vec![(a, (1, 10)), (a, (2, 11))], vec![(a, a, 50), (a, a, 51)]),
                2 => (vec![(c, (0, 10)), (b, (1, 11)), (c, (2, 12)), (b, (3, 13))], vec![(b, c, 50), (c, b, 51), (b, c, 52)]),
                _ => (vec![], vec![]),
            };
            let bytes = if variant / 4 % 2 == 1 {
                // the edge list left out altogether
                if wire.is_cbor() { serde_cbor::to_vec(&(&doc.0,)).unwrap() } else { serde_json::to_vec(&(&doc.0,)).unwrap() }
            } else if wire.is_cbor() {
                serde_cbor::to_vec(&doc).unwrap()
            } else {
                serde_json::to_vec(&doc).unwrap()
            };
            match F::g_de(&bytes, *wire) {
                Ok(g2) => {
                    let mut d: Vec<(usize, u32, u64, Vec<(usize, u64)>, Vec<(usize, u64)>)> = F::g_iter(&g2)
                        .iter()
                        .map(|(k, n)| {
                            let (o, i) = World::<F>::lists_of(n);
                            (*k, F::prio(n), F::vid(n), o, i)
                        })
                        .collect();
                    d.sort();
                    Obs::Text(format!("{d:?}"))
                }
                Err(_) => Obs::Text("deserialise error".into()),
            }
        }
        TOp::EdgeEq { u, i, v, j } => {
            let a = nth_edge::<F>(&w.nodes[*u], *i);
            let b = nth_edge::<F>(&w.nodes[*v], *j);
            match (a, b) {
                (Some(a), Some(b)) => Obs::Bool(F::edge_eq(&a, &b)),
                _ => Obs::Unit,
            }
        }
        TOp::EdgeCmp { u, i, v, j } => {
            let a = nth_edge::<F>(&w.nodes[*u], *i);
            let b = nth_edge::<F>(&w.nodes[*v], *j);
            let mut all = Vec::new();
            F::for_out(&w.nodes[*u], &mut |x, y, e| {
                all.push((x, y, e));
                all.len() < 64
            });
            let sorted = F::edge_sort(&all);
            match (a, b) {
                (Some(a), Some(b)) => Obs::Text(format!("{} sorted={sorted:?}", F::edge_cmp(&a, &b))),
                _ => Obs::Text(format!("sorted={sorted:?}")),
            }
        }
        TOp::EdgeReverse { u, i } => match nth_edge::<F>(&w.nodes[*u], *i) {
            Some(a) => Obs::Edges(vec![F::edge_reverse(&a)]),
            None => Obs::Unit,
        },
        TOp::MacroBuild => Obs::Text(F::macro_samples().join(" || ")),
        TOp::PathInfo { root, spec } => match F::path_info(&w.nodes[*root], spec) {
            Some(t) => Obs::Text(t),
            None => Obs::Unit,
        },
        TOp::Recreate { capacity } => {
            let members = F::g_to_vec(w.graph.as_ref().unwrap());
            // with_capacity exists on one side only (outside the property), and a different
            // capacity would give the two sides different container orders: both sides use default()
            let _ = capacity;
            let mut g = F::g_default();
            let mut keys: Vec<usize> = members.iter().map(|n| F::key(n)).collect();
            keys.sort();
            for k in &keys {
                let n = members.iter().find(|n| F::key(n) == *k).unwrap().clone();
                F::g_insert(&mut g, n);
            }
            w.graph = Some(g);
            Obs::Keys(keys)
        }
        TOp::Loop { u, dir, spec, plan } => {
            let step = std::cell::Cell::new(0usize);
            let yields = std::cell::RefCell::new(Vec::new());
            let results = std::cell::RefCell::new(Vec::new());
            let wr: &World<F> = w;
            let body = |a: usize, b: usize, e: u64| -> bool {
                let i = step.get();
                step.set(i + 1);
                yields.borrow_mut().push((a, b, e));
                for (at, op) in plan {
                    if *at == i {
                        results.borrow_mut().push(canon_obs(wr.exec(op)));
                    }
                }
                i < 400
            };
            let ret = match spec {
                None => {
                    let node = &wr.nodes[*u];
                    let mut f = |a: F::Node, b: F::Node, e: crate::payload::EVal| body(F::key(&a), F::key(&b), e.0);
                    // dir / 3 selects how the loop is driven: 0 a plain `for`, 1.. the iterator
                    // adaptor styles of Flavour::for_adapted
                    match (dir / 3, dir % 3) {
                        (0, 0) => F::for_out(node, &mut f),
                        (0, 1) => F::for_in(node, &mut f),
                        (0, _) => F::for_into(node, &mut f),
                        (style, d) => F::for_adapted(node, d, style, &mut f),
                    }
                    Obs::Unit
                }
                Some(spec) => {
                    let mask = spec.mask;
                    let out = F::search(&wr.nodes[*u], spec, &mut |a, b, e| {
                        if !body(F::key(a), F::key(b), e.0) {
                            std::panic::resume_unwind(Box::new(crate::locks::SimAbort("cut".into())));
                        }
                        mask & (1 << (e.0 % 16)) == 0
                    });
                    crate::world::search_out_obs::<F>(out)
                }
            };
            Obs::Text(format!("yields={:?} results={:?} ret={ret:?}", yields.borrow(), results.borrow()))
        }
        TOp::IterInto { u } => {
            let mut v = Vec::new();
            F::for_into(&w.nodes[*u], &mut |a, b, e| {
                v.push((F::key(&a), F::key(&b), e.0));
                v.len() < 10_000
            });
            Obs::Edges(v)
        }
        TOp::Relax { root, max, target } => {
            let far = if *max { -1_000_000 } else { 1_000_000 };
            for x in &w.nodes {
                F::set_eff(x, far);
            }
            F::set_eff(&w.nodes[*root], 0);
            let spec = crate::model::SearchSpec {
                kind: if *max { crate::model::SKind::PfsMax } else { crate::model::SKind::PfsMin },
                mode: if target.is_some() { crate::model::SMode::Path } else { crate::model::SMode::Find },
                target: *target,
                transpose: false,
                closure: crate::model::Closure::ForEach,
                mask: 0,
                query: false,
            };
            let mut seen: Vec<(usize, usize, u64)> = Vec::new();
            let out = F::search(&w.nodes[*root], &spec, &mut |a, b, e| {
                let step = (e.0 % 5) as i64 + 1;
                let nd = if *max { F::eff(a) - step } else { F::eff(a) + step };
                if (*max && nd > F::eff(b)) || (!*max && nd < F::eff(b)) {
                    F::set_eff(b, nd);
                }
                seen.push((F::key(a), F::key(b), e.0));
                true
            });
            let dist: Vec<i64> = w.nodes.iter().map(|x| F::eff(x)).collect();
            // back to the values every other call expects
            for x in &w.nodes {
                F::set_eff(x, F::prio(x) as i64);
            }
            Obs::Text(format!("saw {seen:?} dist {dist:?} result {:?}", crate::world::search_out_obs::<F>(out)))
        }
        TOp::NodeCmp { u, v } => {
            let a = &w.nodes[*u];
            let b = &w.nodes[*v];
            Obs::Text(format!("{} {:?} {}", F::node_eq(a, b), F::node_cmp(a, b), F::deref_prio(a)))
        }
    }
}

fn log_of<F: Flavour>(sc: &TwinSc, stats: &mut Stats) -> Vec<Obs> {
    crate::keys::set_style(crate::keys::style_from(sc.hash_seed));
    hashseam::set_seed(sc.hash_seed);
    let solo = Solo::new();
    if F::SYNC {
        solo.install();
    }
    let mut world = World::<F>::new(&sc.prios, true);
    world.seed_edges(&sc.initial);
    let mut log = Vec::with_capacity(sc.ops.len());
    let mut extras: Vec<F::Node> = Vec::new();
    for (i, op) in sc.ops.iter().enumerate() {
        // both sides start every call from the same point of the hash-seed sequence, however
        // many hash containers the previous calls created on either side
        hashseam::set_seed(crate::rng::mix(sc.hash_seed ^ (i as u64 + 1)));
        solo.set_budget(500_000);
        let o = match caught(|| exec::<F>(&mut world, &mut extras, op)) {
            Caught::Ok(o) => o,
            Caught::Panic(m) => Obs::Panic(m),
            Caught::Abort(m) => Obs::Abort(m),
        };
        if o.is_failure() {
            stats.inc("calls_failing");
        }
        log.push(canon_obs(o));
    }
    if F::SYNC {
        Solo::uninstall();
    }
    log
}

impl Engine for Twin {
    type Sc = TwinSc;

    fn name(&self) -> &'static str {
        "twin"
    }

    fn generate(&self, rng: &mut Rng, tier: Tier) -> TwinSc {
        let pair = if rng.coin() { "di" } else { "un" }.to_string();
        let directed = pair == "di";
        let small = rng.chance(1, 2);
        let n = if small { rng.range(1, 3) } else { rng.range(4, 8) };
        let prios: Vec<u32> = (0..n).map(|_| rng.below(3) as u32).collect();
        let mut m = Model::new(directed, n);
        let mut next_edge = 100;
        let initial = gen::gen_initial(rng, &mut m, &mut next_edge, if small { 4 } else { 12 });
        let mut cfg = GenCfg::mutations_and_queries();
        cfg.w = [25, 10, 15, 4, 16, 8, 22];
        let nops = if small { rng.range(1, 14) } else { rng.range(10, if tier == Tier::Quick { 60 } else { 150 }) };
        let mut ops = Vec::new();
        for _ in 0..nops {
            let k = if rng.chance(1, 15) { gen::NO_SUCH_KEY } else { rng.below(n) };
            let wire = *rng.pick(&[Wire::Json, Wire::Cbor, Wire::Cbor, Wire::JsonValue, Wire::JsonStr]);
            let op = match rng.below(100) {
                0..=54 => {
                    let mut op = gen::gen_op(rng, &m, &mut next_edge, &cfg);
                    if let Op::Search { spec, .. } = &mut op {
                        if !spec.valid(directed) {
                            spec.transpose = false;
                        }
                    }
                    m.step(&op);
                    TOp::Node(op)
                }
                55..=58 => TOp::Remove { k, sole: rng.chance(1, 3) },
                59 if rng.coin() => {
                    // (an edge between two objects that carry the same key is outside every
                    // precondition: the neighbour is another node)
                    let nb = rng.below(n);
                    if nb == k {
                        TOp::Insert { u: nb }
                    } else {
                        TOp::InsertOther { k, nb }
                    }
                }
                59 => TOp::TryConnectTwin { u: rng.below(n), k: rng.below(n) },
                60..=62 => TOp::Insert { u: rng.below(n) },
                63..=64 => TOp::Get { k },
                65 => TOp::Index { k: rng.below(n) },
                66 => TOp::Contains { k },
                67 => TOp::Len,
                68 => TOp::IsEmpty,
                69..=70 => TOp::ToVec,
                71 => TOp::Iter,
                72..=73 => TOp::Roots,
                74..=75 => TOp::Leaves,
                76..=77 => TOp::Orphans,
                78..=79 => TOp::ToDot,
                80..=81 => TOp::ToDotAttr(DotSpec {
                    g: rng.coin(),
                    nmask: (rng.next_u64() & 0xffff) as u16,
                    emask: (rng.next_u64() & 0xffff) as u16,
                }),
                82..=85 => TOp::Scc,
                86..=88 => TOp::Serialise { wire },
                89 if rng.coin() => TOp::DeHandWritten { wire, variant: rng.below(8) as u8 },
                89..=91 => TOp::RoundTrip { wire },
                92..=93 => TOp::EdgeEq { u: rng.below(n), i: rng.below(3), v: rng.below(n), j: rng.below(3) },
                94..=95 => TOp::EdgeCmp { u: rng.below(n), i: rng.below(3), v: rng.below(n), j: rng.below(3) },
                96 if rng.chance(1, 20) => TOp::MacroBuild,
                96 if rng.chance(1, 2) => TOp::Relax { root: rng.below(n), max: rng.chance(1, 3), target: if rng.coin() { Some(rng.below(n)) } else { None } },
                96 => {
                    if rng.coin() {
                        TOp::EdgeReverse { u: rng.below(n), i: rng.below(3) }
                    } else {
                        TOp::Recreate { capacity: if rng.coin() { Some(rng.below(64)) } else { None } }
                    }
                }
                97 if rng.chance(2, 3) => {
                    // a loop whose body mutates
                    let mut plan = Vec::new();
                    for _ in 0..rng.range(1, 4) {
                        let mut op = gen::gen_op(rng, &m, &mut next_edge, &cfg);
                        if let Op::Search { spec, .. } = &mut op {
                            if !spec.valid(directed) {
                                spec.transpose = false;
                            }
                        }
                        // (the generator's shadow state is not advanced: what the body does depends
                        // on how far the loop gets; both flavours get the same plan)
                        plan.push((rng.below(4), op));
                    }
                    let spec = if rng.coin() {
                        let mut sp = gen::gen_search_spec(rng, &m, true);
                        if sp.closure == crate::model::Closure::None {
                            sp.closure = crate::model::Closure::ForEach;
                        }
                        if !sp.valid(directed) {
                            sp.transpose = false;
                        }
                        Some(sp)
                    } else {
                        None
                    };
                    TOp::Loop { u: rng.below(n), dir: (rng.below(3) + 3 * if rng.coin() { 0 } else { rng.range(1, 8) }) as u8, spec, plan }
                }
                97 => {
                    if rng.coin() {
                        TOp::IterInto { u: rng.below(n) }
                    } else {
                        let mut spec = gen::gen_search_spec(rng, &m, false);
                        if matches!(spec.kind, crate::model::SKind::Pre | crate::model::SKind::Post) {
                            spec.kind = crate::model::SKind::Bfs;
                        }
                        spec.mode = if rng.chance(1, 3) { crate::model::SMode::Cycle } else { crate::model::SMode::Path };
                        spec.target = if spec.mode == crate::model::SMode::Cycle { None } else { Some(rng.below(n)) };
                        if !directed {
                            spec.transpose = false;
                        }
                        TOp::PathInfo { root: rng.below(n), spec }
                    }
                }
                _ => TOp::NodeCmp { u: rng.below(n), v: rng.below(n) },
            };
            ops.push(op);
        }
        if rng.chance(1, 10) {
            ops.push(TOp::Dangling { u: rng.below(n), towards: rng.coin() });
        }
        TwinSc {
            pair,
            prios,
            hash_seed: rng.next_u64(),
            initial,
            ops,
        }
    }

    fn execute(&self, sc: &TwinSc, stats: &mut Stats) -> Option<(Violation, TwinSc)> {
        stats.inc(&format!("runs_pair_{}", sc.pair));
        let (a, b, na, nb) = if sc.pair == "di" {
            (
                log_of::<crate::flavour::Di>(sc, stats),
                log_of::<crate::flavour::SyncDi>(sc, stats),
                "digraph",
                "sync_digraph",
            )
        } else {
            (
                log_of::<crate::flavour::Un>(sc, stats),
                log_of::<crate::flavour::SyncUn>(sc, stats),
                "ungraph",
                "sync_ungraph",
            )
        };
        stats.add("calls_compared", a.len() as u64);
        for (i, (x, y)) in a.iter().zip(&b).enumerate() {
            let kind = format!("{:?}", sc.ops[i]);
            let kind: String = match &sc.ops[i] {
                TOp::Node(op) => op.name().to_string(),
                _ => kind.split(|c: char| !c.is_alphanumeric()).next().unwrap_or("").to_lowercase(),
            };
            stats.mark(
                "call_and_result",
                crate::rng::fnv(format!("{}|{:?}|{:?}", sc.pair, sc.ops[i], x).as_bytes()),
            );
            // calls that exist on one side only are outside the property
            if *x == Obs::Unsupported || *y == Obs::Unsupported {
                stats.inc("calls_existing_on_one_side_only");
                continue;
            }
            if matches!(x, Obs::Panic(_)) && x == y {
                // a call that fails on both sides alike leaves the two in states that are not
                // comparable by design (a panic under a write guard poisons an RwLock, a RefCell
                // is simply released): what follows is outside the property
                stats.inc("histories_cut_after_a_call_failing_on_both_sides");
                break;
            }
            if x != y {
                let mut p = sc.clone();
                p.ops.truncate(i + 1);
                return Some((
                    Violation::new(
                        format!("diverge:{kind}"),
                        format!("call #{i} {:?}: {na} observed {x:?}, {nb} observed {y:?}", sc.ops[i]),
                    ),
                    p,
                ));
            }
        }
        None
    }

    fn shrink(&self, sc: &TwinSc) -> Vec<TwinSc> {
        let mut out = Vec::new();
        for ops in gen::shrink_vec(&sc.ops, 200) {
            if ops.is_empty() {
                continue;
            }
            let mut c = sc.clone();
            c.ops = ops;
            out.push(c);
        }
        for init in gen::shrink_vec(&sc.initial, 40) {
            let mut c = sc.clone();
            c.initial = init;
            out.push(c);
        }
        let n = sc.prios.len();
        if n > 1 {
            let k = n - 1;
            let used = sc.initial.iter().any(|(u, v, _)| *u == k || *v == k)
                || sc.ops.iter().any(|o| match o {
                    TOp::Node(op) => gen::remap_op(op, k).is_none(),
                    TOp::Insert { u } => *u == k,
                    TOp::InsertOther { k: x, nb } => *x == k || *nb == k,
                    TOp::TryConnectTwin { u, k: x } => *u == k || *x == k,
                    TOp::Dangling { u, .. } => *u == k,
                    TOp::Remove { k: x, .. } | TOp::Get { k: x } | TOp::Index { k: x } | TOp::Contains { k: x } => *x == k,
                    TOp::EdgeEq { u, v, .. } | TOp::EdgeCmp { u, v, .. } | TOp::NodeCmp { u, v } => *u == k || *v == k,
                    TOp::EdgeReverse { u, .. } | TOp::IterInto { u } => *u == k,
                    TOp::PathInfo { root, spec } => *root == k || spec.target == Some(k),
                    TOp::Relax { root, target, .. } => *root == k || *target == Some(k),
                    TOp::Loop { u, spec, plan, .. } => {
                        *u == k || spec.as_ref().map(|s| s.target == Some(k)).unwrap_or(false) || plan.iter().any(|(_, op)| gen::remap_op(op, k).is_none())
                    }
                    _ => false,
                });
            if !used {
                let mut c = sc.clone();
                c.prios.pop();
                out.push(c);
            }
        }
        let plain: Vec<TOp> = sc
            .ops
            .iter()
            .map(|o| match o {
                TOp::Node(op) => TOp::Node(gen::plain_prov(op)),
                o => o.clone(),
            })
            .collect();
        if plain != sc.ops {
            let mut c = sc.clone();
            c.ops = plain;
            out.push(c);
        }
        out
    }

    fn size(&self, sc: &TwinSc) -> usize {
        sc.ops.len() * 8
            + sc.initial.len() * 4
            + sc.prios.len() * 2
            + sc
                .ops
                .iter()
                .filter(|o| matches!(o, TOp::Node(op) if op.prov() != crate::model::Prov::Own))
                .count()
    }
}
