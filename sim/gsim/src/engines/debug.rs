//! Engines that misbehave on purpose, for the watchdog self-test only.

use crate::rng::Rng;
use crate::runner::{Engine, Stats, Tier, Violation};
use serde::{Deserialize, Serialize};

#[derive(Clone, Debug, Serialize, Deserialize)]
pub struct DebugSc {
    pub n: u64,
}

/// kind: "hang" loops forever, "crash" aborts the process, when n % 97 == 13
pub struct Debug {
    pub kind: &'static str,
}

impl Engine for Debug {
    type Sc = DebugSc;
    fn name(&self) -> &'static str {
        "debug"
    }
    fn generate(&self, rng: &mut Rng, _tier: Tier) -> DebugSc {
        DebugSc { n: rng.next_u64() % 1000 }
    }
    fn execute(&self, sc: &DebugSc, stats: &mut Stats) -> Option<(Violation, DebugSc)> {
        stats.mark("n", sc.n);
        if self.kind == "history" {
            // fails only once this process has executed a few runs before (state kept across runs)
            static EXECUTED: std::sync::atomic::AtomicU64 = std::sync::atomic::AtomicU64::new(0);
            let before = EXECUTED.fetch_add(1, std::sync::atomic::Ordering::SeqCst);
            if before >= 4 && sc.n % 5 == 2 {
                return Some((Violation::new("history-dependent", format!("n={} after {before} earlier runs in this process", sc.n)), sc.clone()));
            }
            return None;
        }
        if sc.n % 97 == 13 {
            match self.kind {
                "hang" => loop {
                    std::thread::sleep(std::time::Duration::from_millis(50));
                },
                _ => std::process::abort(),
            }
        }
        None
    }
    fn shrink(&self, _sc: &DebugSc) -> Vec<DebugSc> {
        Vec::new()
    }
    fn size(&self, _sc: &DebugSc) -> usize {
        1
    }
}
