//! Engines that misbehave on purpose, for the watchdog self-test only.

use crate::rng::Rng;
use crate::runner::{Engine, Stats, Tier, Violation};
use serde::{Deserialize, Serialize};

#[derive(Clone, Debug, Serialize, Deserialize)]
pub struct DebugSc {
    pub n: u64,
}

/// kind: "hang" loops forever, "crash" aborts the process, when n % 97 == 13
pub struct Debug {
    pub kind: &'static str,
}

impl Engine for Debug {
    type Sc = DebugSc;
    fn name(&self) -> &'static str {
        "debug"
    }
    fn generate(&self, rng: &mut Rng, _tier: Tier) -> DebugSc {
        DebugSc { n: rng.next_u64() % 1000 }
    }
    fn execute(&self, sc: &DebugSc, stats: &mut Stats) -> Option<(Violation, DebugSc)> {
        stats.mark("n", sc.n);
        if sc.n % 97 == 13 {
            match self.kind {
                "hang" => loop {
                    std::thread::sleep(std::time::Duration::from_millis(50));
                },
                _ => std::process::abort(),
            }
        }
        None
    }
    fn shrink(&self, _sc: &DebugSc) -> Vec<DebugSc> {
        Vec::new()
    }
    fn size(&self, _sc: &DebugSc) -> usize {
        1
    }
}
