pub mod conc;
pub mod hist;
