pub mod conc;
pub mod container;
pub mod hist;
pub mod inject;
pub mod lifetime;
pub mod scc;
pub mod serde_eng;
pub mod twin;
