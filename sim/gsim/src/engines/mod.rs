pub mod conc;
pub mod hist;
pub mod inject;
pub mod scc;
pub mod serde_eng;
