pub mod hist;
