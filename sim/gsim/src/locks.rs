//! Lock seam consumers (S1): the single-task observer that turns a
//! self-deadlock into a reported event, and the multi-task baton-passing
//! scheduler that owns every interleaving of lock acquisitions.

use crate::rng::Rng;
use gdsl::verif::{LockObserver, Mode};
use serde::{Deserialize, Serialize};
use std::cell::{Cell, RefCell};
use std::collections::{BTreeMap, VecDeque};
use std::panic::{catch_unwind, resume_unwind, AssertUnwindSafe};
use std::rc::Rc;
use std::sync::{Arc, Condvar, Mutex};

// ---------------------------------------------------------------------------
// panic capture

/// Private unwinding payload used by the simulator to cut a call short.
pub struct SimAbort(pub String);

thread_local! {
    static QUIET: Cell<u32> = const { Cell::new(0) };
    static LAST_PANIC: RefCell<Option<String>> = const { RefCell::new(None) };
}

pub fn install_panic_hook() {
    std::panic::set_hook(Box::new(|info| {
        let msg = if let Some(s) = info.payload().downcast_ref::<&str>() {
            (*s).to_string()
        } else if let Some(s) = info.payload().downcast_ref::<String>() {
            s.clone()
        } else {
            "<non-string panic payload>".to_string()
        };
        // Where did it panic? Library sources are compiled from an absolute path (<repo>/src/...),
        // the harness's own sources from a relative one (gsim/src/...), std and dependencies
        // from /rustc/... or the cargo registry.
        let loc = info
            .location()
            .map(|l| {
                let f = l.file();
                let lib = f.starts_with('/') && !f.starts_with("/rustc") && !f.contains("/.cargo/") && !f.contains("/gsim/");
                match (lib, f.find("/src/")) {
                    (true, Some(i)) => format!("{}:{}", &f[i + 1..], l.line()),
                    // the adapter file only contains thin calls into the library: a panic located
                    // there is a #[track_caller] attribution (e.g. `g[k]` -> Index::index) of a
                    // panic raised by library code
                    _ if f.ends_with("gsim/src/flavour.rs") => format!("src/ (reported at the call site, adapter line {})", l.line()),
                    _ if !f.starts_with('/') => format!("harness:{}:{}", f, l.line()),
                    _ => format!("{}:{}", f, l.line()),
                }
            })
            .unwrap_or_default();
        let text = format!("{msg} @ {loc}");
        let quiet = QUIET.try_with(|q| q.get() > 0).unwrap_or(false);
        if quiet {
            let _ = LAST_PANIC.try_with(|p| *p.borrow_mut() = Some(text));
        } else {
            eprintln!("HARNESS PANIC: {text}");
        }
    }));
}

pub enum Caught<T> {
    Ok(T),
    Panic(String),
    Abort(String),
}

/// Runs `f`, capturing a panic of the code under test (message and location,
/// nothing printed) or a simulator abort.
pub fn caught<T>(f: impl FnOnce() -> T) -> Caught<T> {
    QUIET.with(|q| q.set(q.get() + 1));
    let r = catch_unwind(AssertUnwindSafe(f));
    QUIET.with(|q| q.set(q.get() - 1));
    match r {
        Ok(v) => Caught::Ok(v),
        Err(p) => {
            if let Some(a) = p.downcast_ref::<SimAbort>() {
                Caught::Abort(a.0.clone())
            } else {
                let m = LAST_PANIC
                    .with(|l| l.borrow_mut().take())
                    .unwrap_or_else(|| "<panic>".to_string());
                if m.contains("@ harness:") {
                    // the harness itself is broken: never a verdict about the library
                    eprintln!("HARNESS-ERROR: the harness panicked: {m}");
                    std::process::exit(2);
                }
                Caught::Panic(m)
            }
        }
    }
}

pub fn mode_str(m: Mode) -> &'static str {
    match m {
        Mode::Read => "R",
        Mode::Write => "W",
    }
}

// ---------------------------------------------------------------------------
// single-task observer

#[derive(Default, Clone, Debug)]
pub struct SoloStats {
    pub acquisitions: u64,
    pub recursive_reads: u64,
    pub max_held: usize,
    pub self_deadlocks: u64,
}

#[derive(Default)]
struct SoloState {
    held: BTreeMap<usize, (u32, bool)>,
    names: BTreeMap<usize, usize>,
    discover: Option<usize>,
    stats: SoloStats,
    budget: u64,
    used: u64,
    harness_error: Option<String>,
}

/// Observer for runs with one task. A blocking acquisition that conflicts with
/// a guard the same thread already holds can never be granted: it is reported
/// (by unwinding with `SimAbort`) instead of hanging.
pub struct Solo {
    st: RefCell<SoloState>,
}

impl Solo {
    pub fn new() -> Rc<Solo> {
        Rc::new(Solo {
            st: RefCell::new(SoloState {
                budget: u64::MAX,
                ..Default::default()
            }),
        })
    }
    pub fn install(self: &Rc<Self>) {
        gdsl::verif::install(Some(self.clone() as Rc<dyn LockObserver>));
    }
    pub fn uninstall() {
        gdsl::verif::install(None);
    }
    /// the next acquisition seen belongs to node `key`
    pub fn discover(&self, key: usize) {
        self.st.borrow_mut().discover = Some(key);
    }
    pub fn set_budget(&self, b: u64) {
        let mut s = self.st.borrow_mut();
        s.budget = b;
        s.used = 0;
    }
    pub fn stats(&self) -> SoloStats {
        self.st.borrow().stats.clone()
    }
    pub fn held_any(&self) -> bool {
        self.st.borrow().held.values().any(|(r, w)| *r > 0 || *w)
    }
    pub fn harness_error(&self) -> Option<String> {
        self.st.borrow().harness_error.clone()
    }
    fn name(s: &SoloState, lock: usize) -> String {
        match s.names.get(&lock) {
            Some(k) => format!("node{k}"),
            None => "global-lock".to_string(),
        }
    }
}

impl LockObserver for Solo {
    fn before_acquire(&self, lock: usize, mode: Mode) {
        let abort = {
            let mut s = self.st.borrow_mut();
            if let Some(k) = s.discover.take() {
                s.names.insert(lock, k);
            }
            s.stats.acquisitions += 1;
            s.used += 1;
            let (r, w) = *s.held.get(&lock).unwrap_or(&(0, false));
            if s.used > s.budget {
                Some("step budget exceeded (no progress)".to_string())
            } else if w || (mode == Mode::Write && r > 0) {
                s.stats.self_deadlocks += 1;
                Some(format!(
                    "self-deadlock: {} lock of {} requested while the same thread holds its {} guard",
                    if mode == Mode::Write { "write" } else { "read" },
                    Solo::name(&s, lock),
                    if w { "write" } else { "read" }
                ))
            } else {
                if r > 0 {
                    s.stats.recursive_reads += 1;
                }
                None
            }
        };
        if let Some(m) = abort {
            resume_unwind(Box::new(SimAbort(m)));
        }
    }
    fn try_failed(&self, _lock: usize, _mode: Mode) {
        let over = {
            let mut s = self.st.borrow_mut();
            s.used += 1;
            s.used > s.budget
        };
        if over {
            // one task spinning on a lock nobody will ever release
            resume_unwind(Box::new(SimAbort("step budget exceeded (no progress)".into())));
        }
    }
    fn acquired(&self, lock: usize, mode: Mode, model_ok: bool) {
        if !model_ok {
            // never block on a lock the model believes free: that is a harness error, not a hang
            self.st.borrow_mut().harness_error = Some("real lock disagreed with the single-task lock model".into());
            resume_unwind(Box::new(SimAbort("harness: lock model disagreement".into())));
        }
        let mut s = self.st.borrow_mut();
        let e = s.held.entry(lock).or_insert((0, false));
        match mode {
            Mode::Read => e.0 += 1,
            Mode::Write => e.1 = true,
        }
        let n = s.held.values().filter(|(r, w)| *r > 0 || *w).count();
        if n > s.stats.max_held {
            s.stats.max_held = n;
        }
    }
    fn after_release(&self, lock: usize, mode: Mode) {
        let mut s = self.st.borrow_mut();
        if let Some(e) = s.held.get_mut(&lock) {
            match mode {
                Mode::Read => e.0 = e.0.saturating_sub(1),
                Mode::Write => e.1 = false,
            }
        }
    }
}

// ---------------------------------------------------------------------------
// multi-task scheduler

#[derive(Clone, Debug, Serialize, Deserialize, PartialEq)]
pub enum PolicyKind {
    Uniform,
    /// PCT-style: random priorities, `d` priority change points
    Pct { d: u32 },
    /// one pause at a decision step chosen by the scenario: the first task runs until decision
    /// `at`, is then put behind all others (which run to their end, in random priority order) and
    /// finishes last - the shape of a check-then-act window, placed instead of hoped for
    PauseAt { at: u32 },
    /// keep running the current task; preempt with probability num/100
    Sticky { num: u32 },
    /// no preemption, random task order
    Serial,
    /// systematic enumeration of the schedules of a small scenario: after the forced prefix the
    /// lowest enabled task runs; the enabled sets are recorded so that the caller can branch
    Enumerate,
}

#[derive(Clone, Debug, Serialize, Deserialize, PartialEq)]
pub struct Policy {
    pub kind: PolicyKind,
    /// model std's futex RwLock: a queued writer blocks new readers
    pub writer_pref: bool,
    /// also allow a context switch right after a lock was acquired, i.e. while the task is
    /// inside its critical section (matters for code that uses non-blocking try_* acquisitions:
    /// they can then observe the lock as busy)
    #[serde(default)]
    pub preempt_in_cs: bool,
    /// also allow a context switch right after a lock was released (state a changed library
    /// might share outside the locks, e.g. an atomic updated after the guard is dropped)
    #[serde(default)]
    pub preempt_at_release: bool,
}

#[derive(Clone, Copy, Debug, PartialEq)]
enum Status {
    Start,
    Running,
    /// runnable, preempted inside a critical section (needs no lock)
    Yield,
    AtPoint(usize, Mode),
    Queued(usize, Mode),
    Done,
}

#[derive(Default, Clone)]
struct LockSt {
    writer: Option<usize>,
    readers: Vec<usize>,
}

#[derive(Default, Clone, Debug, Serialize, Deserialize)]
pub struct SchedProbes {
    pub decisions: u64,
    pub switches: u64,
    pub queued_events: u64,
    pub writer_queued_behind_reader: u64,
    pub reader_blocked_by_queued_writer: u64,
    pub writer_queued_behind_writer: u64,
    #[serde(default)]
    pub try_acquisitions: u64,
    #[serde(default)]
    pub preemptions_inside_critical_section: u64,
    #[serde(default)]
    pub failed_try_acquisitions: u64,
    #[serde(default)]
    pub preemptions_after_release: u64,
}

#[derive(Clone, Debug, Serialize, Deserialize, PartialEq)]
pub enum AbortKind {
    Deadlock,
    Budget,
    ReplayMismatch,
}

struct St {
    status: Vec<Status>,
    points: Vec<u64>,
    locks: BTreeMap<usize, LockSt>,
    names: BTreeMap<usize, usize>,
    discover: Option<usize>,
    running: Option<usize>,
    ctl_wake: bool,
    policy: Policy,
    rng: Rng,
    forced: Option<VecDeque<u32>>,
    trace: Vec<u32>,
    prio: Vec<i64>,
    change_at: Vec<u64>,
    last: Option<usize>,
    aborted: Option<(AbortKind, String)>,
    harness_error: Option<String>,
    probes: SchedProbes,
    budget: u64,
    events: Vec<String>,
    /// (task, lock name, mode) per grant: the interleaving fingerprint
    grants: Vec<(u8, u8, u8)>,
    /// enabled tasks at every decision (Enumerate policy only)
    branching: Vec<Vec<u32>>,
    /// per task: the blocking acquisition the model has granted and the real lock has not yet
    /// confirmed (anything else reported through `acquired` is a successful try_* acquisition)
    pending: Vec<Option<(usize, Mode)>>,
    yield_rng: Rng,
}

pub struct Sched {
    m: Mutex<St>,
    cvs: Vec<Condvar>,
    ctl: Condvar,
}

pub struct SchedOutcome {
    pub trace: Vec<u32>,
    pub aborted: Option<(AbortKind, String)>,
    pub harness_error: Option<String>,
    pub probes: SchedProbes,
    pub events: Vec<String>,
    pub grants: Vec<(u8, u8, u8)>,
    pub branching: Vec<Vec<u32>>,
}

impl Sched {
    pub fn new(ntasks: usize, policy: Policy, mut rng: Rng, forced: Option<Vec<u32>>, budget: u64) -> Arc<Sched> {
        let mut prio: Vec<i64> = (0..ntasks as i64).map(|i| i + 10).collect();
        rng.shuffle(&mut prio);
        let mut change_at = Vec::new();
        if let PolicyKind::Pct { d } = policy.kind {
            for _ in 0..d {
                change_at.push(rng.range(1, 40) as u64);
            }
        }
        if let PolicyKind::PauseAt { at } = policy.kind {
            change_at.push(at as u64);
            // task 0 (the one with the single looked-up-then-acted call) starts first
            prio = (0..ntasks as i64).map(|i| if i == 0 { 1000 } else { 10 + i }).collect();
            if ntasks > 2 {
                let mut rest: Vec<i64> = prio[1..].to_vec();
                rng.shuffle(&mut rest);
                prio[1..].copy_from_slice(&rest);
            }
        }
        let yield_rng = rng.fork();
        Arc::new(Sched {
            m: Mutex::new(St {
                status: vec![Status::Start; ntasks],
                points: vec![0; ntasks],
                locks: BTreeMap::new(),
                names: BTreeMap::new(),
                discover: None,
                running: None,
                ctl_wake: false,
                policy,
                rng,
                forced: forced.map(|v| v.into_iter().collect()),
                trace: Vec::new(),
                prio,
                change_at,
                last: None,
                aborted: None,
                harness_error: None,
                probes: SchedProbes::default(),
                budget,
                events: Vec::new(),
                grants: Vec::new(),
                branching: Vec::new(),
                pending: vec![None; ntasks],
                yield_rng,
            }),
            cvs: (0..ntasks).map(|_| Condvar::new()).collect(),
            ctl: Condvar::new(),
        })
    }

    /// Teach the scheduler which node a lock belongs to (controller thread,
    /// before the run): the next acquisition announced through `probe_obs`.
    pub fn name_lock(self: &Arc<Self>, key: usize, touch: impl FnOnce()) {
        self.m.lock().unwrap().discover = Some(key);
        let obs: Rc<dyn LockObserver> = Rc::new(ProbeObs { sched: self.clone() });
        let prev = gdsl::verif::install(Some(obs));
        touch();
        gdsl::verif::install(prev);
        self.m.lock().unwrap().discover = None;
    }

    fn lname(st: &St, lock: usize) -> String {
        match st.names.get(&lock) {
            Some(k) => format!("node{k}"),
            None => "global-lock".into(),
        }
    }

    fn grantable(st: &St, lock: usize, mode: Mode, tid: usize) -> bool {
        let l = st.locks.get(&lock);
        let (writer, nreaders) = match l {
            Some(l) => (l.writer, l.readers.len()),
            None => (None, 0),
        };
        match mode {
            Mode::Write => writer.is_none() && nreaders == 0,
            Mode::Read => {
                if writer.is_some() {
                    return false;
                }
                if st.policy.writer_pref {
                    for (t, s) in st.status.iter().enumerate() {
                        if t != tid {
                            if let Status::Queued(l2, Mode::Write) = s {
                                if *l2 == lock {
                                    return false;
                                }
                            }
                        }
                    }
                }
                true
            }
        }
    }

    fn grant(st: &mut St, lock: usize, mode: Mode, tid: usize) {
        st.pending[tid] = Some((lock, mode));
        let l = st.locks.entry(lock).or_default();
        match mode {
            Mode::Write => l.writer = Some(tid),
            Mode::Read => l.readers.push(tid),
        }
        let name = st.names.get(&lock).map(|k| *k as u8).unwrap_or(255);
        st.grants.push((tid as u8, name, (mode == Mode::Write) as u8));
    }

    fn describe_deadlock(st: &St) -> String {
        let mut parts = Vec::new();
        for (t, s) in st.status.iter().enumerate() {
            if let Status::Queued(l, m) = s {
                let ls = st.locks.get(l).cloned().unwrap_or_default();
                let holder = match (ls.writer, ls.readers.is_empty()) {
                    (Some(w), _) => format!("held W by t{w}"),
                    (None, false) => format!("held R by {:?}", ls.readers),
                    (None, true) => {
                        "free, but a writer queued on it blocks this reader".to_string()
                    }
                };
                parts.push(format!(
                    "t{t} waits for {}({}) {holder}",
                    mode_str(*m),
                    Sched::lname(st, *l)
                ));
            }
        }
        parts.join("; ")
    }

    fn decide(st: &mut St, cands: &[usize]) -> Option<usize> {
        st.probes.decisions += 1;
        let enumerate = st.policy.kind == PolicyKind::Enumerate;
        if enumerate {
            st.branching.push(cands.iter().map(|c| *c as u32).collect());
        }
        if let Some(f) = st.forced.as_mut() {
            return match f.pop_front() {
                Some(c) if cands.contains(&(c as usize)) => Some(c as usize),
                Some(c) => {
                    st.aborted = Some((
                        AbortKind::ReplayMismatch,
                        format!("forced decision t{c} is not enabled (enabled: {cands:?})"),
                    ));
                    None
                }
                None if enumerate => Some(cands[0]),
                None => {
                    // trace exhausted: no further preemption
                    match st.last {
                        Some(l) if cands.contains(&l) => Some(l),
                        _ => Some(cands[0]),
                    }
                }
            };
        }
        let c = match st.policy.kind.clone() {
            PolicyKind::Uniform => cands[st.rng.below(cands.len())],
            PolicyKind::Pct { .. } | PolicyKind::PauseAt { .. } => {
                let step = st.probes.decisions;
                if st.change_at.contains(&step) {
                    if let Some(l) = st.last {
                        let low = st.prio.iter().min().copied().unwrap_or(0) - 1;
                        st.prio[l] = low;
                    }
                }
                *cands.iter().max_by_key(|t| st.prio[**t]).unwrap()
            }
            PolicyKind::Sticky { num } => match st.last {
                Some(l) if cands.contains(&l) && !st.rng.chance(num, 100) => l,
                _ => cands[st.rng.below(cands.len())],
            },
            PolicyKind::Serial => match st.last {
                Some(l) if cands.contains(&l) => l,
                _ => cands[st.rng.below(cands.len())],
            },
            PolicyKind::Enumerate => cands[0],
        };
        Some(c)
    }

    /// Runs with the state lock held by whoever holds the baton. Picks the
    /// next task to run (or ends the run).
    fn schedule(&self, st: &mut St) {
        loop {
            if st.aborted.is_some() {
                self.end(st);
                return;
            }
            let mut cands = Vec::new();
            for (t, s) in st.status.iter().enumerate() {
                match s {
                    Status::Start | Status::AtPoint(..) | Status::Yield => cands.push(t),
                    Status::Queued(l, m) => {
                        if Sched::grantable(st, *l, *m, t) {
                            cands.push(t)
                        }
                    }
                    _ => {}
                }
            }
            if cands.is_empty() {
                if !st.status.iter().all(|s| *s == Status::Done) {
                    let d = Sched::describe_deadlock(st);
                    st.aborted = Some((AbortKind::Deadlock, d));
                }
                self.end(st);
                return;
            }
            let c = match Sched::decide(st, &cands) {
                Some(c) => c,
                None => {
                    self.end(st);
                    return;
                }
            };
            st.trace.push(c as u32);
            let run = match st.status[c] {
                Status::Start | Status::Yield => true,
                Status::AtPoint(l, m) => {
                    if Sched::grantable(st, l, m, c) {
                        Sched::grant(st, l, m, c);
                        true
                    } else {
                        st.status[c] = Status::Queued(l, m);
                        st.probes.queued_events += 1;
                        let ls = st.locks.get(&l).cloned().unwrap_or_default();
                        match m {
                            Mode::Write => {
                                if ls.writer.is_some() {
                                    st.probes.writer_queued_behind_writer += 1;
                                } else {
                                    st.probes.writer_queued_behind_reader += 1;
                                }
                            }
                            Mode::Read => {
                                if ls.writer.is_none() {
                                    st.probes.reader_blocked_by_queued_writer += 1;
                                }
                            }
                        }
                        if st.events.len() < 400 {
                            let e = format!("t{c} queues for {}({})", mode_str(m), Sched::lname(st, l));
                            st.events.push(e);
                        }
                        false
                    }
                }
                Status::Queued(l, m) => {
                    Sched::grant(st, l, m, c);
                    true
                }
                _ => unreachable!(),
            };
            if run {
                if st.events.len() < 400 {
                    let e = match st.status[c] {
                        Status::Start => format!("t{c} starts"),
                        Status::Yield => format!("t{c} resumes inside its critical section"),
                        Status::AtPoint(l, m) | Status::Queued(l, m) => {
                            format!("t{c} takes {}({})", mode_str(m), Sched::lname(st, l))
                        }
                        _ => String::new(),
                    };
                    st.events.push(e);
                }
                st.status[c] = Status::Running;
                if st.last != Some(c) {
                    st.probes.switches += 1;
                }
                st.last = Some(c);
                st.running = Some(c);
                self.cvs[c].notify_one();
                return;
            }
        }
    }

    fn end(&self, st: &mut St) {
        st.running = None;
        st.ctl_wake = true;
        for cv in &self.cvs {
            cv.notify_one();
        }
        self.ctl.notify_one();
    }

    /// Controller: start the run and wait until every task is done.
    pub fn run_to_completion(&self) -> SchedOutcome {
        let mut st = self.m.lock().unwrap();
        self.schedule(&mut st);
        loop {
            let all_done = st.status.iter().all(|s| *s == Status::Done);
            if all_done {
                break;
            }
            st = self.ctl.wait(st).unwrap();
        }
        SchedOutcome {
            trace: st.trace.clone(),
            aborted: st.aborted.clone(),
            harness_error: st.harness_error.clone(),
            probes: st.probes.clone(),
            events: st.events.clone(),
            grants: st.grants.clone(),
            branching: st.branching.clone(),
        }
    }

    /// Task thread: block until first scheduled. Returns false if the run was
    /// aborted before this task ever ran.
    pub fn wait_start(&self, tid: usize) -> bool {
        let mut st = self.m.lock().unwrap();
        loop {
            if st.running == Some(tid) {
                return true;
            }
            if st.aborted.is_some() {
                return false;
            }
            st = self.cvs[tid].wait(st).unwrap();
        }
    }

    pub fn finish(&self, tid: usize) {
        let mut st = self.m.lock().unwrap();
        st.status[tid] = Status::Done;
        if st.events.len() < 400 {
            st.events.push(format!("t{tid} done"));
        }
        if st.running == Some(tid) {
            st.running = None;
            self.schedule(&mut st);
        }
        self.ctl.notify_one();
    }

    pub fn is_aborted(&self) -> bool {
        self.m.lock().unwrap().aborted.is_some()
    }

    fn point(&self, tid: usize, lock: usize, mode: Mode) {
        let mut st = self.m.lock().unwrap();
        if st.aborted.is_some() {
            drop(st);
            resume_unwind(Box::new(SimAbort("run aborted".into())));
        }
        st.points[tid] += 1;
        if st.points[tid] > st.budget {
            st.aborted = Some((
                AbortKind::Budget,
                format!("t{tid} exceeded {} lock points without finishing", st.budget),
            ));
        }
        st.status[tid] = Status::AtPoint(lock, mode);
        st.running = None;
        self.schedule(&mut st);
        loop {
            if st.running == Some(tid) {
                return;
            }
            if st.aborted.is_some() {
                let why = match &st.aborted {
                    Some((AbortKind::Deadlock, _)) => "deadlock",
                    Some((AbortKind::Budget, _)) => "step budget",
                    _ => "aborted",
                };
                drop(st);
                resume_unwind(Box::new(SimAbort(why.into())));
            }
            st = self.cvs[tid].wait(st).unwrap();
        }
    }

    fn released(&self, tid: usize, lock: usize, mode: Mode) {
        let mut st = self.m.lock().unwrap();
        if let Some(l) = st.locks.get_mut(&lock) {
            match mode {
                Mode::Write => {
                    if l.writer == Some(tid) {
                        l.writer = None;
                    }
                }
                Mode::Read => {
                    if let Some(p) = l.readers.iter().position(|t| *t == tid) {
                        l.readers.remove(p);
                    }
                }
            }
        }
        // (never unwinds: this runs inside a guard's Drop)
        if !st.policy.preempt_at_release
            || st.aborted.is_some()
            || st.policy.kind == PolicyKind::Enumerate
            || st.running != Some(tid)
            || std::thread::panicking()
        {
            return;
        }
        if !st.yield_rng.chance(1, 4) {
            return;
        }
        st.probes.preemptions_after_release += 1;
        st.status[tid] = Status::Yield;
        st.running = None;
        self.schedule(&mut st);
        loop {
            if st.running == Some(tid) {
                return;
            }
            if st.aborted.is_some() {
                st.status[tid] = Status::Running;
                return;
            }
            st = self.cvs[tid].wait(st).unwrap();
        }
    }

    /// The real lock was acquired. A blocking acquisition was granted by the model before; a
    /// successful try_* acquisition is entered into the model here. Then, under
    /// `preempt_in_cs`, the task may be preempted while it holds the lock.
    fn acquired(&self, tid: usize, lock: usize, mode: Mode) {
        let mut st = self.m.lock().unwrap();
        if st.pending[tid] == Some((lock, mode)) {
            st.pending[tid] = None;
        } else {
            let l = st.locks.entry(lock).or_default();
            match mode {
                Mode::Write => l.writer = Some(tid),
                Mode::Read => l.readers.push(tid),
            }
            st.probes.try_acquisitions += 1;
        }
        if !st.policy.preempt_in_cs || st.aborted.is_some() || st.policy.kind == PolicyKind::Enumerate {
            return;
        }
        if !st.yield_rng.chance(1, 3) {
            return;
        }
        st.probes.preemptions_inside_critical_section += 1;
        st.status[tid] = Status::Yield;
        st.running = None;
        self.schedule(&mut st);
        loop {
            if st.running == Some(tid) {
                return;
            }
            if st.aborted.is_some() {
                // keep going: the guard this task holds is released by normal unwinding at its
                // next lock point
                st.status[tid] = Status::Running;
                return;
            }
            st = self.cvs[tid].wait(st).unwrap();
        }
    }

    fn real_disagrees(&self, tid: usize, lock: usize, mode: Mode) {
        let mut st = self.m.lock().unwrap();
        let n = Sched::lname(&st, lock);
        st.harness_error = Some(format!(
            "real lock not available when the model granted {}({n}) to t{tid}",
            mode_str(mode)
        ));
        if st.aborted.is_none() {
            st.aborted = Some((AbortKind::ReplayMismatch, "harness error".into()));
        }
        self.end(&mut st);
    }

    /// A non-blocking acquisition found the lock busy: the caller may be spinning, so the other
    /// tasks get a chance to run; counted against the step budget.
    fn yield_point(&self, tid: usize) {
        let mut st = self.m.lock().unwrap();
        if st.aborted.is_some() {
            drop(st);
            resume_unwind(Box::new(SimAbort("run aborted".into())));
        }
        st.points[tid] += 1;
        if st.points[tid] > st.budget {
            st.aborted = Some((
                AbortKind::Budget,
                format!("t{tid} exceeded {} lock points without finishing", st.budget),
            ));
        }
        st.probes.failed_try_acquisitions += 1;
        if matches!(st.policy.kind, PolicyKind::Pct { .. } | PolicyKind::PauseAt { .. }) {
            // a task that spins on a busy lock must not starve the holder: under the priority
            // policies it goes behind everybody else (a real scheduler would let the holder run)
            let low = st.prio.iter().min().copied().unwrap_or(0) - 1;
            st.prio[tid] = low;
        }
        st.status[tid] = Status::Yield;
        st.running = None;
        self.schedule(&mut st);
        loop {
            if st.running == Some(tid) {
                return;
            }
            if st.aborted.is_some() {
                drop(st);
                resume_unwind(Box::new(SimAbort("aborted".into())));
            }
            st = self.cvs[tid].wait(st).unwrap();
        }
    }
}

struct ProbeObs {
    sched: Arc<Sched>,
}

impl LockObserver for ProbeObs {
    fn before_acquire(&self, lock: usize, _mode: Mode) {
        let mut st = self.sched.m.lock().unwrap();
        if let Some(k) = st.discover.take() {
            st.names.insert(lock, k);
        }
    }
    fn acquired(&self, _: usize, _: Mode, _: bool) {}
    fn after_release(&self, _: usize, _: Mode) {}
}

/// Observer installed on each task thread.
pub struct TaskObs {
    pub sched: Arc<Sched>,
    pub tid: usize,
}

impl TaskObs {
    pub fn install(sched: &Arc<Sched>, tid: usize) {
        let o: Rc<dyn LockObserver> = Rc::new(TaskObs {
            sched: sched.clone(),
            tid,
        });
        gdsl::verif::install(Some(o));
    }
}

impl LockObserver for TaskObs {
    fn before_acquire(&self, lock: usize, mode: Mode) {
        self.sched.point(self.tid, lock, mode);
    }
    fn acquired(&self, lock: usize, mode: Mode, model_ok: bool) {
        if !model_ok {
            // never block on a lock the model believes free: harness error, the run is aborted
            self.sched.real_disagrees(self.tid, lock, mode);
            resume_unwind(Box::new(SimAbort("harness: lock model disagreement".into())));
        }
        self.sched.acquired(self.tid, lock, mode);
    }
    fn try_failed(&self, _lock: usize, _mode: Mode) {
        self.sched.yield_point(self.tid);
    }
    fn after_release(&self, lock: usize, mode: Mode) {
        self.sched.released(self.tid, lock, mode);
    }
}
