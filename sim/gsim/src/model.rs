//! Operation alphabet, observations, and the reference multigraph (DESIGN §3.3).
//! The model states exactly what C03 states about the sequential meaning of the
//! four mutating calls and nothing more.

use serde::{Deserialize, Serialize};

/// How the handle an operation is called through was obtained.
#[derive(Clone, Copy, Debug, Serialize, Deserialize, PartialEq, Eq, PartialOrd, Ord, Hash)]
pub enum Prov {
    Own,
    Clone,
    Get,
    Index,
    EdgeSrc,
    EdgeDst,
    Search,
    PathNode,
}

pub const ALL_PROV: [Prov; 8] = [
    Prov::Own,
    Prov::Clone,
    Prov::Get,
    Prov::Index,
    Prov::EdgeSrc,
    Prov::EdgeDst,
    Prov::Search,
    Prov::PathNode,
];

#[derive(Clone, Copy, Debug, Serialize, Deserialize, PartialEq, Eq, PartialOrd, Ord, Hash)]
pub enum SKind {
    Bfs,
    Dfs,
    PfsMin,
    PfsMax,
    Pre,
    Post,
}

#[derive(Clone, Copy, Debug, Serialize, Deserialize, PartialEq, Eq, PartialOrd, Ord, Hash)]
pub enum SMode {
    Find,
    Path,
    Cycle,
    Nodes,
    Edges,
}

#[derive(Clone, Copy, Debug, Serialize, Deserialize, PartialEq, Eq, PartialOrd, Ord, Hash)]
pub enum Closure {
    None,
    ForEach,
    Filter,
}

#[derive(Clone, Debug, Serialize, Deserialize, PartialEq, Eq, Hash)]
pub struct SearchSpec {
    pub kind: SKind,
    pub mode: SMode,
    pub target: Option<usize>,
    pub transpose: bool,
    pub closure: Closure,
    /// Filter closures reject an edge when bit (value mod 16) of the mask is set.
    pub mask: u16,
    /// the closure also asks both endpoints of the edge it is handed for a degree (in the sync
    /// flavours: takes their read locks, from inside the traversal)
    #[serde(default)]
    pub query: bool,
}

impl SearchSpec {
    pub fn valid(&self, directed: bool) -> bool {
        let order = matches!(self.kind, SKind::Pre | SKind::Post);
        let omode = matches!(self.mode, SMode::Nodes | SMode::Edges);
        order == omode && (directed || !self.transpose) && (!order || self.target.is_none())
    }
}

#[derive(Clone, Debug, Serialize, Deserialize, PartialEq, Eq, Hash)]
pub enum Op {
    Connect { u: usize, v: usize, e: u64, h: Prov },
    TryConnect { u: usize, v: usize, e: u64, h: Prov },
    Disconnect { u: usize, k: usize, h: Prov },
    Isolate { u: usize, h: Prov },
    OutDeg { u: usize },
    InDeg { u: usize },
    IsRoot { u: usize },
    IsLeaf { u: usize },
    IsOrphan { u: usize },
    IsConnected { u: usize, k: usize },
    FindOut { u: usize, k: usize },
    FindIn { u: usize, k: usize },
    /// collect the node's edge lists through the public iterators
    Snapshot { u: usize },
    /// the same through an iterator adaptor (style of `Flavour::for_adapted`: for_each, fold,
    /// ...), with a loop body that also queries the iterated node
    SnapshotVia { u: usize, style: u8 },
    Search { root: usize, spec: SearchSpec },
    /// a read-only call on the shared container: 0 roots, 1 leaves, 2 orphans, 3 to_vec, 4 to_dot,
    /// 5 scc, 6 serialise (JSON), 7 to_dot_with_attr, 8 iter
    GView { kind: u8 },
}

impl Op {
    pub fn is_mutation(&self) -> bool {
        matches!(
            self,
            Op::Connect { .. } | Op::TryConnect { .. } | Op::Disconnect { .. } | Op::Isolate { .. }
        )
    }
    pub fn name(&self) -> &'static str {
        match self {
            Op::Connect { .. } => "connect",
            Op::TryConnect { .. } => "try_connect",
            Op::Disconnect { .. } => "disconnect",
            Op::Isolate { .. } => "isolate",
            Op::OutDeg { .. } => "out_degree",
            Op::InDeg { .. } => "in_degree",
            Op::IsRoot { .. } => "is_root",
            Op::IsLeaf { .. } => "is_leaf",
            Op::IsOrphan { .. } => "is_orphan",
            Op::IsConnected { .. } => "is_connected",
            Op::FindOut { .. } => "find_outbound",
            Op::FindIn { .. } => "find_inbound",
            Op::Snapshot { .. } => "snapshot",
            Op::SnapshotVia { .. } => "snapshot_via_adaptor",
            Op::Search { .. } => "search",
            Op::GView { .. } => "container_view",
        }
    }
    /// the node the call is made on
    pub fn subject(&self) -> usize {
        match self {
            Op::Connect { u, .. }
            | Op::TryConnect { u, .. }
            | Op::Disconnect { u, .. }
            | Op::Isolate { u, .. }
            | Op::OutDeg { u }
            | Op::InDeg { u }
            | Op::IsRoot { u }
            | Op::IsLeaf { u }
            | Op::IsOrphan { u }
            | Op::IsConnected { u, .. }
            | Op::FindOut { u, .. }
            | Op::FindIn { u, .. }
            | Op::Snapshot { u }
            | Op::SnapshotVia { u, .. } => *u,
            Op::Search { root, .. } => *root,
            Op::GView { .. } => 0,
        }
    }
    pub fn prov(&self) -> Prov {
        match self {
            Op::Connect { h, .. }
            | Op::TryConnect { h, .. }
            | Op::Disconnect { h, .. }
            | Op::Isolate { h, .. } => *h,
            _ => Prov::Own,
        }
    }
}

#[derive(Clone, Copy, Debug, Serialize, Deserialize, PartialEq, Eq, Hash)]
pub enum Er {
    NotFound,
    Exists,
    Other,
}

/// What a call returned, expressed in keys and values only.
#[derive(Clone, Debug, Serialize, Deserialize, PartialEq, Eq, Hash)]
pub enum Obs {
    Unit,
    Bool(bool),
    Num(usize),
    OptKey(Option<usize>),
    Res(Result<(), Er>),
    ResVal(Result<u64, Er>),
    /// (neighbour key, value) lists: outgoing and incoming (undirected: the
    /// adjacency list twice)
    Lists { out: Vec<(usize, u64)>, inn: Vec<(usize, u64)> },
    Edges(Vec<(usize, usize, u64)>),
    OptEdges(Option<Vec<(usize, usize, u64)>>),
    Keys(Vec<usize>),
    Text(String),
    /// traversal: what it returned and the edges its closure was shown
    Search { result: Box<Obs>, seen: Vec<(usize, usize, u64)> },
    /// the call panicked (message)
    Panic(String),
    /// the call was cut short by the simulator (self-deadlock, step budget)
    Abort(String),
    /// the operation does not exist in this flavour
    Unsupported,
}

impl Obs {
    pub fn is_failure(&self) -> bool {
        matches!(self, Obs::Panic(_) | Obs::Abort(_))
    }
}

#[derive(Clone, Debug, Serialize, Deserialize, PartialEq, Eq, Hash)]
pub struct MEdge {
    pub val: u64,
    /// creator (source in the directed flavours)
    pub u: usize,
    pub v: usize,
}

/// Reference multigraph: live edges in creation order.
#[derive(Clone, Debug, Serialize, Deserialize, PartialEq, Eq, Hash)]
pub struct Model {
    pub directed: bool,
    pub n: usize,
    pub edges: Vec<MEdge>,
}

impl Model {
    pub fn new(directed: bool, n: usize) -> Self {
        Model {
            directed,
            n,
            edges: Vec::new(),
        }
    }

    pub fn out(&self, u: usize) -> Vec<(usize, u64)> {
        self.edges
            .iter()
            .filter(|e| e.u == u)
            .map(|e| (e.v, e.val))
            .collect()
    }

    pub fn inn(&self, v: usize) -> Vec<(usize, u64)> {
        self.edges
            .iter()
            .filter(|e| e.v == v)
            .map(|e| (e.u, e.val))
            .collect()
    }

    /// undirected adjacency as a sorted multiset (self-loop: two entries)
    pub fn adj(&self, u: usize) -> Vec<(usize, u64)> {
        let mut a = self.out(u);
        a.extend(self.inn(u));
        a.sort();
        a
    }

    /// edges the caller `u` has to key `k` (undirected: either orientation)
    pub fn between(&self, u: usize, k: usize) -> Vec<u64> {
        self.edges
            .iter()
            .filter(|e| (e.u == u && e.v == k) || (!self.directed && e.u == k && e.v == u))
            .map(|e| e.val)
            .collect()
    }

    pub fn incident(&self, u: usize) -> usize {
        self.edges.iter().filter(|e| e.u == u || e.v == u).count()
    }

    pub fn has_self_loop(&self) -> bool {
        self.edges.iter().any(|e| e.u == e.v)
    }

    pub fn has_parallel(&self) -> bool {
        for (i, a) in self.edges.iter().enumerate() {
            for b in &self.edges[i + 1..] {
                if (a.u == b.u && a.v == b.v) || (!self.directed && a.u == b.v && a.v == b.u) {
                    return true;
                }
            }
        }
        false
    }

    /// canonical fingerprint of the abstract state (edge values abstracted to
    /// their rank, so that histories reaching the same shape coincide)
    pub fn shape_hash(&self) -> u64 {
        let mut buf = Vec::with_capacity(self.edges.len() * 2 + 2);
        buf.push(self.directed as u8);
        buf.push(self.n as u8);
        for e in &self.edges {
            buf.push(e.u as u8);
            buf.push(e.v as u8);
        }
        crate::rng::fnv(&buf)
    }

    pub fn state_hash(&self) -> u64 {
        let mut buf = Vec::with_capacity(self.edges.len() * 10 + 2);
        buf.push(self.directed as u8);
        for e in &self.edges {
            buf.push(e.u as u8);
            buf.push(e.v as u8);
            buf.extend_from_slice(&e.val.to_le_bytes());
        }
        crate::rng::fnv(&buf)
    }

    /// Checks `obs` against the sequential meaning of `op` in the current
    /// state and applies the state change. `Err` describes the disagreement.
    /// Traversal results are not predicted (C04-C10 are not decided here).
    pub fn apply(&mut self, op: &Op, obs: &Obs) -> Result<(), String> {
        if let Obs::Panic(m) = obs {
            return Err(format!("panicked: {m}"));
        }
        if let Obs::Abort(m) = obs {
            return Err(format!("did not return: {m}"));
        }
        let d = self.directed;
        match op {
            Op::Connect { u, v, e, .. } => {
                expect(obs, &Obs::Unit)?;
                self.edges.push(MEdge {
                    val: *e,
                    u: *u,
                    v: *v,
                });
                Ok(())
            }
            Op::TryConnect { u, v, e, .. } => {
                if self.between(*u, *v).is_empty() {
                    expect(obs, &Obs::Res(Ok(())))?;
                    self.edges.push(MEdge {
                        val: *e,
                        u: *u,
                        v: *v,
                    });
                } else {
                    expect(obs, &Obs::Res(Err(Er::Exists)))?;
                }
                Ok(())
            }
            Op::Disconnect { u, k, .. } => {
                let cands = self.between(*u, *k);
                match obs {
                    Obs::ResVal(Ok(val)) => {
                        if !cands.contains(val) {
                            return Err(format!(
                                "returned value {val} which is not the value of a live edge of the pair (live: {cands:?})"
                            ));
                        }
                        let pos = self.edges.iter().position(|e| e.val == *val).unwrap();
                        self.edges.remove(pos);
                        Ok(())
                    }
                    Obs::ResVal(Err(Er::NotFound)) => {
                        if cands.is_empty() {
                            Ok(())
                        } else {
                            Err(format!("EdgeNotFound although edges {cands:?} exist"))
                        }
                    }
                    o => Err(format!("unexpected return {o:?}")),
                }
            }
            Op::Isolate { u, .. } => {
                expect(obs, &Obs::Unit)?;
                self.edges.retain(|e| e.u != *u && e.v != *u);
                Ok(())
            }
            Op::OutDeg { u } => {
                let n = if d { self.out(*u).len() } else { self.adj(*u).len() };
                expect(obs, &Obs::Num(n))
            }
            Op::InDeg { u } => {
                let n = if d { self.inn(*u).len() } else { self.adj(*u).len() };
                expect(obs, &Obs::Num(n))
            }
            Op::IsRoot { u } => {
                let b = if d { self.inn(*u).is_empty() } else { self.adj(*u).is_empty() };
                expect(obs, &Obs::Bool(b))
            }
            Op::IsLeaf { u } => {
                let b = if d { self.out(*u).is_empty() } else { self.adj(*u).is_empty() };
                expect(obs, &Obs::Bool(b))
            }
            Op::IsOrphan { u } => expect(obs, &Obs::Bool(self.incident(*u) == 0)),
            Op::IsConnected { u, k } => expect(obs, &Obs::Bool(!self.between(*u, *k).is_empty())),
            Op::FindOut { u, k } => {
                let some = !self.between(*u, *k).is_empty();
                expect(obs, &Obs::OptKey(if some { Some(*k) } else { None }))
            }
            Op::FindIn { u, k } => {
                let some = if d {
                    self.edges.iter().any(|e| e.u == *k && e.v == *u)
                } else {
                    !self.between(*u, *k).is_empty()
                };
                expect(obs, &Obs::OptKey(if some { Some(*k) } else { None }))
            }
            Op::Snapshot { u } => match obs {
                Obs::Lists { out, inn } => {
                    if d {
                        if *out != self.out(*u) {
                            return Err(format!("out-list {:?} != model {:?}", out, self.out(*u)));
                        }
                        if *inn != self.inn(*u) {
                            return Err(format!("in-list {:?} != model {:?}", inn, self.inn(*u)));
                        }
                    } else {
                        let mut a = out.clone();
                        a.sort();
                        if a != self.adj(*u) {
                            return Err(format!("adjacency {:?} != model {:?}", a, self.adj(*u)));
                        }
                    }
                    Ok(())
                }
                o => Err(format!("unexpected return {o:?}")),
            },
            Op::Search { .. } | Op::GView { .. } | Op::SnapshotVia { .. } => Ok(()),
        }
    }
}

fn expect(got: &Obs, want: &Obs) -> Result<(), String> {
    if got == want {
        Ok(())
    } else {
        Err(format!("returned {got:?}, sequential meaning is {want:?}"))
    }
}
