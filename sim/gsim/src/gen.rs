//! Seeded generation of operations, biased towards the states the properties
//! single out (self-loops, parallel edges, failing calls, repeated removal).

use crate::model::{Closure, MEdge, Model, Op, Prov, SKind, SMode, SearchSpec};
use crate::rng::Rng;

pub const NO_SUCH_KEY: usize = 1000;

#[derive(Clone, Debug)]
pub struct GenCfg {
    /// a pair of nodes most edge operations concentrate on (long lists, many parallel edges)
    pub hub: Option<(usize, usize)>,
    pub provs: Vec<Prov>,
    /// weights: connect, try_connect, disconnect, isolate, query, snapshot, search
    pub w: [u32; 7],
}

impl GenCfg {
    pub fn mutations_and_queries() -> Self {
        GenCfg {
            hub: None,
            provs: crate::model::ALL_PROV.to_vec(),
            w: [30, 15, 22, 5, 20, 5, 3],
        }
    }
}

impl Model {
    /// Advance the generator's shadow state with the model's own choice of
    /// which parallel edge a disconnect removes (only a generation bias).
    pub fn step(&mut self, op: &Op) {
        match op {
            Op::Connect { u, v, e, .. } => self.edges.push(MEdge {
                val: *e,
                u: *u,
                v: *v,
            }),
            Op::TryConnect { u, v, e, .. } => {
                if self.between(*u, *v).is_empty() {
                    self.edges.push(MEdge {
                        val: *e,
                        u: *u,
                        v: *v,
                    })
                }
            }
            Op::Disconnect { u, k, .. } => {
                if let Some(val) = self.between(*u, *k).first().copied() {
                    let p = self.edges.iter().position(|e| e.val == val).unwrap();
                    self.edges.remove(p);
                }
            }
            Op::Isolate { u, .. } => self.edges.retain(|e| e.u != *u && e.v != *u),
            _ => {}
        }
    }
}

fn pick_pair(rng: &mut Rng, m: &Model, cfg: &GenCfg) -> (usize, usize) {
    let n = m.n;
    if let Some((a, b)) = cfg.hub {
        if rng.chance(3, 4) {
            return match rng.below(6) {
                0 => (b, a),
                1 => (a, a),
                _ => (a, b),
            };
        }
    }
    let r = rng.below(100);
    if r < 15 {
        let u = rng.below(n);
        (u, u)
    } else if r < 55 && !m.edges.is_empty() {
        // an existing pair, possibly in the opposite orientation
        let e = &m.edges[rng.below(m.edges.len())];
        if rng.chance(1, 3) {
            (e.v, e.u)
        } else {
            (e.u, e.v)
        }
    } else {
        (rng.below(n), rng.below(n))
    }
}

pub fn gen_search_spec(rng: &mut Rng, m: &Model, pure_closures: bool) -> SearchSpec {
    let kind = *rng.pick(&[SKind::Bfs, SKind::Dfs, SKind::PfsMin, SKind::PfsMax, SKind::Pre, SKind::Post]);
    let order = matches!(kind, SKind::Pre | SKind::Post);
    let mode = if order {
        *rng.pick(&[SMode::Nodes, SMode::Edges])
    } else {
        *rng.pick(&[SMode::Find, SMode::Path, SMode::Cycle])
    };
    let target = if order || mode == SMode::Cycle || rng.chance(1, 5) {
        None
    } else {
        Some(rng.below(m.n))
    };
    let closure = if pure_closures {
        *rng.pick(&[Closure::None, Closure::None, Closure::ForEach, Closure::Filter])
    } else {
        Closure::None
    };
    SearchSpec {
        kind,
        mode,
        target,
        transpose: m.directed && rng.chance(1, 3),
        closure,
        mask: if closure == Closure::Filter { (rng.next_u64() & 0xffff) as u16 & (rng.next_u64() & 0xffff) as u16 } else { 0 },
        query: closure != Closure::None && rng.chance(1, 3),
    }
}

pub fn gen_op(rng: &mut Rng, m: &Model, next_edge: &mut u64, cfg: &GenCfg) -> Op {
    let n = m.n;
    let h = *rng.pick(&cfg.provs);
    match rng.weighted(&cfg.w) {
        0 => {
            let (u, v) = pick_pair(rng, m, cfg);
            *next_edge += 1;
            Op::Connect { u, v, e: *next_edge, h }
        }
        1 => {
            let (u, v) = pick_pair(rng, m, cfg);
            *next_edge += 1;
            Op::TryConnect { u, v, e: *next_edge, h }
        }
        2 => {
            let r = rng.below(100);
            if r < 70 && !m.edges.is_empty() {
                let e = &m.edges[rng.below(m.edges.len())];
                // undirected: either endpoint may be the caller
                if !m.directed && rng.coin() {
                    Op::Disconnect { u: e.v, k: e.u, h }
                } else {
                    Op::Disconnect { u: e.u, k: e.v, h }
                }
            } else if r < 95 {
                Op::Disconnect { u: rng.below(n), k: rng.below(n), h }
            } else {
                Op::Disconnect { u: rng.below(n), k: NO_SUCH_KEY + rng.below(3), h }
            }
        }
        3 => Op::Isolate { u: rng.below(n), h },
        4 => {
            let u = rng.below(n);
            let k = if rng.chance(1, 12) { NO_SUCH_KEY } else { rng.below(n) };
            if m.directed {
                match rng.below(8) {
                    0 => Op::OutDeg { u },
                    1 => Op::InDeg { u },
                    2 => Op::IsRoot { u },
                    3 => Op::IsLeaf { u },
                    4 => Op::IsOrphan { u },
                    5 => Op::IsConnected { u, k },
                    6 => Op::FindOut { u, k },
                    _ => Op::FindIn { u, k },
                }
            } else {
                match rng.below(4) {
                    0 => Op::OutDeg { u },
                    1 => Op::IsOrphan { u },
                    2 => Op::IsConnected { u, k },
                    _ => Op::FindOut { u, k },
                }
            }
        }
        5 => Op::Snapshot { u: rng.below(n) },
        _ => Op::Search {
            root: rng.below(n),
            spec: gen_search_spec(rng, m, true),
        },
    }
}

pub fn gen_initial(rng: &mut Rng, m: &mut Model, next_edge: &mut u64, max: usize) -> Vec<(usize, usize, u64)> {
    let k = rng.below(max + 1);
    let mut out = Vec::new();
    for _ in 0..k {
        let (u, v) = pick_pair(rng, m, &GenCfg::mutations_and_queries());
        *next_edge += 1;
        out.push((u, v, *next_edge));
        m.edges.push(MEdge {
            val: *next_edge,
            u,
            v,
        });
    }
    out
}

// ---------------------------------------------------------------------------
// shrinking helpers

/// Candidates obtained by deleting one chunk (halves, quarters, ... singles).
pub fn shrink_vec<T: Clone>(v: &[T], cap: usize) -> Vec<Vec<T>> {
    let mut out = Vec::new();
    let n = v.len();
    if n == 0 {
        return out;
    }
    let mut size = n;
    while size >= 1 {
        let mut start = 0;
        while start < n {
            let end = (start + size).min(n);
            let mut c = Vec::with_capacity(n - (end - start));
            c.extend_from_slice(&v[..start]);
            c.extend_from_slice(&v[end..]);
            out.push(c);
            if out.len() >= cap {
                return out;
            }
            start += size;
        }
        if size == 1 {
            break;
        }
        size /= 2;
    }
    out
}

fn remap(x: usize, k: usize) -> Option<usize> {
    if x >= NO_SUCH_KEY {
        Some(x)
    } else if x == k {
        None
    } else if x > k {
        Some(x - 1)
    } else {
        Some(x)
    }
}

/// Renumber an operation for the removal of node `k`; `None` if it uses `k`.
pub fn remap_op(op: &Op, k: usize) -> Option<Op> {
    Some(match op {
        Op::Connect { u, v, e, h } => Op::Connect { u: remap(*u, k)?, v: remap(*v, k)?, e: *e, h: *h },
        Op::TryConnect { u, v, e, h } => Op::TryConnect { u: remap(*u, k)?, v: remap(*v, k)?, e: *e, h: *h },
        Op::Disconnect { u, k: kk, h } => Op::Disconnect { u: remap(*u, k)?, k: remap(*kk, k)?, h: *h },
        Op::Isolate { u, h } => Op::Isolate { u: remap(*u, k)?, h: *h },
        Op::OutDeg { u } => Op::OutDeg { u: remap(*u, k)? },
        Op::InDeg { u } => Op::InDeg { u: remap(*u, k)? },
        Op::IsRoot { u } => Op::IsRoot { u: remap(*u, k)? },
        Op::IsLeaf { u } => Op::IsLeaf { u: remap(*u, k)? },
        Op::IsOrphan { u } => Op::IsOrphan { u: remap(*u, k)? },
        Op::IsConnected { u, k: kk } => Op::IsConnected { u: remap(*u, k)?, k: remap(*kk, k)? },
        Op::FindOut { u, k: kk } => Op::FindOut { u: remap(*u, k)?, k: remap(*kk, k)? },
        Op::FindIn { u, k: kk } => Op::FindIn { u: remap(*u, k)?, k: remap(*kk, k)? },
        Op::Snapshot { u } => Op::Snapshot { u: remap(*u, k)? },
        Op::SnapshotVia { u, style } => Op::SnapshotVia { u: remap(*u, k)?, style: *style },
        Op::Search { root, spec } => {
            let mut s = spec.clone();
            if let Some(t) = s.target {
                s.target = Some(remap(t, k)?);
            }
            Op::Search { root: remap(*root, k)?, spec: s }
        }
        Op::GView { kind } => Op::GView { kind: *kind },
    })
}

pub fn remap_ops(ops: &[Op], k: usize) -> Option<Vec<Op>> {
    ops.iter().map(|o| remap_op(o, k)).collect()
}

pub fn remap_edges(es: &[(usize, usize, u64)], k: usize) -> Option<Vec<(usize, usize, u64)>> {
    es.iter()
        .map(|(u, v, e)| Some((remap(*u, k)?, remap(*v, k)?, *e)))
        .collect()
}

/// Replace every handle provenance by the plain original handle.
pub fn plain_prov(op: &Op) -> Op {
    match op {
        Op::Connect { u, v, e, .. } => Op::Connect { u: *u, v: *v, e: *e, h: Prov::Own },
        Op::TryConnect { u, v, e, .. } => Op::TryConnect { u: *u, v: *v, e: *e, h: Prov::Own },
        Op::Disconnect { u, k, .. } => Op::Disconnect { u: *u, k: *k, h: Prov::Own },
        Op::Isolate { u, .. } => Op::Isolate { u: *u, h: Prov::Own },
        o => o.clone(),
    }
}
