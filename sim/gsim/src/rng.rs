//! The only source of randomness in the simulator: SplitMix64 streams derived
//! from VERIF_SEED. Logging never draws from these.

#[derive(Clone, Debug)]
pub struct Rng {
    s: u64,
}

pub fn mix(mut z: u64) -> u64 {
    z = z.wrapping_add(0x9E37_79B9_7F4A_7C15);
    z = (z ^ (z >> 30)).wrapping_mul(0xBF58_476D_1CE4_E5B9);
    z = (z ^ (z >> 27)).wrapping_mul(0x94D0_49BB_1331_11EB);
    z ^ (z >> 31)
}

/// Independent stream for (seed, tag, index): run `i` of a batch depends on
/// nothing else (in particular not on the worker that executes it).
pub fn stream(seed: u64, tag: &str, index: u64) -> Rng {
    let mut h = mix(seed ^ 0xA076_1D64_78BD_642F);
    for b in tag.bytes() {
        h = mix(h ^ b as u64);
    }
    h = mix(h ^ index.wrapping_mul(0xE703_7ED1_A0B4_28DB));
    Rng { s: h }
}

impl Rng {
    pub fn new(seed: u64) -> Self {
        Rng { s: mix(seed) }
    }
    pub fn next_u64(&mut self) -> u64 {
        self.s = self.s.wrapping_add(0x9E37_79B9_7F4A_7C15);
        let mut z = self.s;
        z = (z ^ (z >> 30)).wrapping_mul(0xBF58_476D_1CE4_E5B9);
        z = (z ^ (z >> 27)).wrapping_mul(0x94D0_49BB_1331_11EB);
        z ^ (z >> 31)
    }
    /// uniform in 0..n (n > 0)
    pub fn below(&mut self, n: usize) -> usize {
        debug_assert!(n > 0);
        ((self.next_u64() >> 11) % (n as u64)) as usize
    }
    /// uniform in lo..=hi
    pub fn range(&mut self, lo: usize, hi: usize) -> usize {
        lo + self.below(hi - lo + 1)
    }
    pub fn chance(&mut self, num: u32, den: u32) -> bool {
        (self.next_u64() >> 11) % (den as u64) < num as u64
    }
    pub fn coin(&mut self) -> bool {
        self.next_u64() & (1 << 40) != 0
    }
    pub fn pick<'a, T>(&mut self, xs: &'a [T]) -> &'a T {
        &xs[self.below(xs.len())]
    }
    /// index drawn according to integer weights
    pub fn weighted(&mut self, w: &[u32]) -> usize {
        let total: u64 = w.iter().map(|x| *x as u64).sum();
        let mut r = (self.next_u64() >> 11) % total.max(1);
        for (i, x) in w.iter().enumerate() {
            if r < *x as u64 {
                return i;
            }
            r -= *x as u64;
        }
        w.len() - 1
    }
    pub fn shuffle<T>(&mut self, xs: &mut [T]) {
        for i in (1..xs.len()).rev() {
            let j = self.below(i + 1);
            xs.swap(i, j);
        }
    }
    pub fn fork(&mut self) -> Rng {
        Rng::new(self.next_u64())
    }
}

/// FNV-1a, for stable fingerprints of traces/states (never for decisions).
pub fn fnv(bytes: &[u8]) -> u64 {
    let mut h: u64 = 0xcbf2_9ce4_8422_2325;
    for b in bytes {
        h ^= *b as u64;
        h = h.wrapping_mul(0x0000_0100_0000_01b3);
    }
    h
}
