//! Hash-order seam (S3). gdsl is built with ahash's `no-rng` feature (fixed
//! keys); the per-instance seed of every `RandomState::new()` comes from the
//! source installed here, which is a pure function of the seed the running
//! simulation installed on the current thread and of the number of instances
//! created since. No change in /repo is needed for this seam.

use crate::rng::mix;
use std::cell::Cell;
use std::sync::Once;

thread_local! {
    static SEED: Cell<u64> = const { Cell::new(0) };
    static COUNTER: Cell<u64> = const { Cell::new(0) };
}

struct SimSource;

impl ahash::random_state::RandomSource for SimSource {
    fn gen_hasher_seed(&self) -> usize {
        let s = SEED.try_with(|s| s.get()).unwrap_or(0);
        let c = COUNTER
            .try_with(|c| {
                let v = c.get();
                c.set(v + 1);
                v
            })
            .unwrap_or(0);
        mix(s ^ mix(c)) as usize
    }
}

static INIT: Once = Once::new();

/// Must run before the first hash container is created in the process.
pub fn init() {
    INIT.call_once(|| {
        if ahash::random_state::set_random_source(SimSource).is_err() {
            eprintln!("HARNESS-ERROR: ahash random source was already initialised");
            std::process::exit(2);
        }
    });
}

/// Start a fresh, reproducible sequence of hash-container seeds on this thread.
pub fn set_seed(seed: u64) {
    SEED.with(|s| s.set(seed));
    COUNTER.with(|c| c.set(0));
}

pub fn instances_created() -> u64 {
    COUNTER.with(|c| c.get())
}
