//! Stream seam (S4): simulated `Read`/`Write` objects whose short transfers,
//! interruptions, errors and early EOF are decided by the scenario.

use serde::{Deserialize, Serialize};
use std::io::{self, Read, Write};

#[derive(Clone, Debug, Default, Serialize, Deserialize, PartialEq)]
pub struct StreamPlan {
    /// max bytes moved per call, cycled (empty = unlimited)
    pub chunks: Vec<usize>,
    /// every k-th call fails with ErrorKind::Interrupted (retryable)
    pub interrupt_every: Option<u32>,
    /// hard I/O error once this many bytes were moved
    pub fail_at: Option<usize>,
    /// writer: `write` returns Ok(0) once this many bytes were written;
    /// reader: end of file after this many bytes (truncation)
    pub stop_at: Option<usize>,
}

impl StreamPlan {
    pub fn is_clean(&self) -> bool {
        self.chunks.is_empty() && self.interrupt_every.is_none() && self.fail_at.is_none() && self.stop_at.is_none()
    }
    pub fn is_hard(&self) -> bool {
        self.fail_at.is_some() || self.stop_at.is_some()
    }
}

#[derive(Clone, Debug, Default)]
pub struct Fired {
    pub calls: u64,
    pub short: u64,
    pub interrupted: u64,
    pub io_error: u64,
    pub stop: u64,
}

pub struct SimWriter {
    pub buf: Vec<u8>,
    plan: StreamPlan,
    pub fired: Fired,
}

impl SimWriter {
    pub fn new(plan: StreamPlan) -> Self {
        SimWriter {
            buf: Vec::new(),
            plan,
            fired: Fired::default(),
        }
    }
}

fn limit(plan: &StreamPlan, calls: u64, want: usize) -> usize {
    if plan.chunks.is_empty() {
        want
    } else {
        let c = plan.chunks[(calls as usize) % plan.chunks.len()].max(1);
        want.min(c)
    }
}

impl Write for SimWriter {
    fn write(&mut self, data: &[u8]) -> io::Result<usize> {
        self.fired.calls += 1;
        if let Some(k) = self.plan.interrupt_every {
            if k > 0 && self.fired.calls % k as u64 == 0 {
                self.fired.interrupted += 1;
                return Err(io::Error::new(io::ErrorKind::Interrupted, "simulated EINTR"));
            }
        }
        if data.is_empty() {
            return Ok(0);
        }
        let mut n = limit(&self.plan, self.fired.calls, data.len());
        if let Some(f) = self.plan.fail_at {
            if self.buf.len() >= f {
                self.fired.io_error += 1;
                return Err(io::Error::new(io::ErrorKind::Other, "simulated I/O error"));
            }
            n = n.min(f - self.buf.len());
        }
        if let Some(z) = self.plan.stop_at {
            if self.buf.len() >= z {
                self.fired.stop += 1;
                return Ok(0);
            }
            n = n.min(z - self.buf.len());
        }
        if n < data.len() {
            self.fired.short += 1;
        }
        self.buf.extend_from_slice(&data[..n]);
        Ok(n)
    }
    fn flush(&mut self) -> io::Result<()> {
        Ok(())
    }
}

pub struct SimReader {
    data: Vec<u8>,
    pos: usize,
    plan: StreamPlan,
    pub fired: Fired,
}

impl SimReader {
    pub fn new(data: Vec<u8>, plan: StreamPlan) -> Self {
        SimReader {
            data,
            pos: 0,
            plan,
            fired: Fired::default(),
        }
    }
}

impl Read for SimReader {
    fn read(&mut self, out: &mut [u8]) -> io::Result<usize> {
        self.fired.calls += 1;
        if let Some(k) = self.plan.interrupt_every {
            if k > 0 && self.fired.calls % k as u64 == 0 {
                self.fired.interrupted += 1;
                return Err(io::Error::new(io::ErrorKind::Interrupted, "simulated EINTR"));
            }
        }
        if out.is_empty() {
            return Ok(0);
        }
        let len = self.data.len();
        let stop = self.plan.stop_at.unwrap_or(usize::MAX);
        let fail = self.plan.fail_at.unwrap_or(usize::MAX);
        let end = len.min(stop).min(fail);
        let avail = end.saturating_sub(self.pos);
        if avail == 0 {
            if fail <= stop && fail < len {
                self.fired.io_error += 1;
                return Err(io::Error::new(io::ErrorKind::Other, "simulated I/O error"));
            }
            if stop < len {
                self.fired.stop += 1;
            }
            return Ok(0);
        }
        let want = out.len().min(avail);
        let n = limit(&self.plan, self.fired.calls, want);
        if n < out.len().min(self.data.len() - self.pos) {
            self.fired.short += 1;
        }
        out[..n].copy_from_slice(&self.data[self.pos..self.pos + n]);
        self.pos += n;
        Ok(n)
    }
}
