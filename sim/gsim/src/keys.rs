//! Key seam: the engines, the reference model and the shrinkers address nodes by index
//! `0..n`; the keys the library sees are `kin(index)`, an injective function chosen per run
//! (a pure function of the scenario, so a replay installs the same one). Everything the
//! adapters hand back is translated with `kout`. Library behaviour that depends on particular
//! key values - their order, their spacing, their low bits, their hash - is thereby sampled
//! instead of being pinned to the smallest integers.

use std::sync::atomic::{AtomicU64, Ordering::Relaxed};

/// 0 = identity; otherwise `kind | param << 8`
static STYLE: AtomicU64 = AtomicU64::new(0);

const ODD: u64 = 0x9E37_79B9_7F4A_7C15;
/// inverse of ODD modulo 2^64
const ODD_INV: u64 = 0xF1DE_83E1_9937_733D;

#[derive(Clone, Copy, Debug, PartialEq, Eq)]
enum Kind {
    Identity,
    /// `index * 2^s + c` (c < 2^s): all keys agree in their low s bits
    Stride { s: u32, c: u64 },
    /// `index + base`: large keys that keep their order and spacing
    Offset { base: u64 },
    /// `index * ODD mod 2^64`: keys spread over the whole range, order scrambled
    Spread,
    /// `MAX - index`: order reversed
    Descending,
}

fn decode(st: u64) -> Kind {
    let p = (st >> 8) & ((1 << 52) - 1);
    match st & 0xff {
        1 => {
            let s = [6u32, 6, 6, 8, 10, 12, 16, 32][(p % 8) as usize];
            Kind::Stride { s, c: (p >> 3) & ((1u64 << s) - 1) }
        }
        2 => Kind::Offset { base: [1u64 << 16, 1 << 32, 1 << 40, (1 << 63) - 1000, 53_499, 1_000_000_007][(p % 6) as usize] },
        3 => Kind::Spread,
        4 => Kind::Descending,
        _ => Kind::Identity,
    }
}

/// Draws a style from a scenario's seed: about half of the runs keep the identity.
pub fn style_from(seed: u64) -> u64 {
    let r = crate::rng::mix(seed ^ 0x6b65_795f_7374_796c);
    let p = r >> 16;
    // bits 60..62: node creation (see `nodes_born_elsewhere`); the key parameter keeps bits 8..59
    let born = (crate::rng::mix(r) & 7) << 60;
    // bits 56..59: how keys hash (see `coarse_modulus`): five values in sixteen are coarse
    let born = born | (((crate::rng::mix(r ^ 0x636f_6172_7365) >> 7) & 15) << 56);
    let p = p & ((1 << 44) - 1);
    born | match r % 100 {
        0..=49 => 0,
        50..=74 => 1 | (p << 8),
        75..=84 => 2 | (p << 8),
        85..=94 => 3,
        _ => 4,
    }
}

pub fn set_style(st: u64) {
    STYLE.store(st, Relaxed);
}

/// Part of the style: are the nodes of this run created on threads of their own (sync flavours)?
/// Decided by bits of the style word that no key style uses, so one run in eight whatever the keys.
pub fn nodes_born_elsewhere() -> bool {
    (STYLE.load(Relaxed) >> 60) & 7 == 7
}

pub fn style() -> u64 {
    STYLE.load(Relaxed)
}

/// The key type every gdsl node and container of the simulators is instantiated with: a newtype
/// over `usize` that prints and serialises like the number it wraps, with a **lawful `Hash` the
/// simulator chooses per run**: by default exactly `usize`'s (`write_usize(k)`); in "coarse"
/// runs `write_usize(k % m)`, m in {1, 2, 3, 5, 16} - equal keys still hash alike, but distinct
/// keys collide under *every* hasher (the containers' ahash, a `DefaultHasher` a library may
/// use for a fingerprint, ...). Whatever a library derives from a key's hash alone and then
/// trusts as identity is thereby exposed; a correct library only gets slower.
#[derive(Clone, Copy, PartialEq, Eq, PartialOrd, Ord, serde::Serialize, serde::Deserialize)]
#[serde(transparent)]
pub struct SimKey(pub usize);

impl std::hash::Hash for SimKey {
    fn hash<H: std::hash::Hasher>(&self, state: &mut H) {
        match coarse_modulus() {
            0 => state.write_usize(self.0),
            m => state.write_usize(self.0 % m),
        }
    }
}
impl std::fmt::Display for SimKey {
    fn fmt(&self, f: &mut std::fmt::Formatter<'_>) -> std::fmt::Result {
        std::fmt::Display::fmt(&self.0, f)
    }
}
impl std::fmt::Debug for SimKey {
    fn fmt(&self, f: &mut std::fmt::Formatter<'_>) -> std::fmt::Result {
        std::fmt::Debug::fmt(&self.0, f)
    }
}

/// 0 = the key's hash is `usize`'s; otherwise keys hash as `k % m` (bits 56..59 of the style word)
pub fn coarse_modulus() -> usize {
    [0usize, 0, 0, 0, 0, 0, 0, 0, 0, 0, 0, 1, 2, 3, 5, 16][((STYLE.load(Relaxed) >> 56) & 15) as usize]
}

/// index -> key
pub fn kin(i: usize) -> SimKey {
    SimKey(kin_raw(i))
}

/// key -> index
pub fn kout(k: SimKey) -> usize {
    kout_raw(k.0)
}

/// index -> the number the key wraps
pub fn kin_raw(i: usize) -> usize {
    let i = i as u64;
    (match decode(STYLE.load(Relaxed)) {
        Kind::Identity => i,
        Kind::Stride { s, c } => (i << s).wrapping_add(c),
        Kind::Offset { base } => i.wrapping_add(base),
        Kind::Spread => i.wrapping_mul(ODD),
        Kind::Descending => u64::MAX - i,
    }) as usize
}

/// key -> index (keys that are no image of an index - they can only come from a document the
/// library was given - map to a value far outside every index range)
pub fn kout_raw(k: usize) -> usize {
    let k = k as u64;
    (match decode(STYLE.load(Relaxed)) {
        Kind::Identity => k,
        Kind::Stride { s, c } => {
            let d = k.wrapping_sub(c);
            if d & ((1u64 << s) - 1) != 0 {
                return usize::MAX - (k as usize % 1000);
            }
            d >> s
        }
        Kind::Offset { base } => k.wrapping_sub(base),
        Kind::Spread => k.wrapping_mul(ODD_INV),
        Kind::Descending => u64::MAX - k,
    }) as usize
}

/// name of the key style in force (a reach counter in the evidence files)
pub fn kind_name() -> &'static str {
    match decode(STYLE.load(Relaxed)) {
        Kind::Identity => "identity",
        Kind::Stride { .. } => "stride_low_bits_shared",
        Kind::Offset { .. } => "large_offset",
        Kind::Spread => "spread_multiplicative",
        Kind::Descending => "descending",
    }
}

pub fn describe() -> Option<String> {
    let keys = match decode(STYLE.load(Relaxed)) {
        Kind::Identity => None,
        Kind::Stride { s, c } => Some(format!("node i has key i*2^{s}+{c}")),
        Kind::Offset { base } => Some(format!("node i has key i+{base}")),
        Kind::Spread => Some(format!("node i has key i*{ODD:#x} mod 2^64")),
        Kind::Descending => Some("node i has key usize::MAX-i".to_string()),
    };
    match (keys, nodes_born_elsewhere(), coarse_modulus()) {
        (None, false, 0) => None,
        (k, born, m) => Some(format!(
            "{}{}{}",
            k.unwrap_or_else(|| "node i has key i".to_string()),
            if born { "; in the sync flavours every node was created on a thread of its own" } else { "" },
            if m > 0 { format!("; the key type's (lawful) Hash feeds only key % {m} to the hasher") } else { String::new() }
        )),
    }
}

#[cfg(test)]
mod tests {
    #[test]
    fn inverse() {
        assert_eq!(super::ODD.wrapping_mul(super::ODD_INV), 1);
    }
}
