//! Property checks: which engines decide which property, budgets, evidence.

use crate::engines::hist::{Hist, Verdict};
use crate::runner::*;
use serde_json::{json, Value};
use std::time::{Duration, Instant};

pub struct PartOut {
    pub engine: String,
    pub runs: u64,
    pub stats: Stats,
    pub wall: f64,
    pub violation: Option<(String, Violation)>,
    pub distinct_key: String,
}

/// Runs one engine for one property: seeded batch, then (on a violation)
/// minimisation, replay file, and a replay of that file in a fresh process.
pub fn run_part<E: Engine>(prop: &str, e: &E, seed: u64, runs: u64, tier: Tier, cap_s: u64, distinct_key: &str) -> PartOut {
    let tag = format!("{prop}/{}", e.name());
    let out = run_batch(e, &tag, seed, runs, tier, Duration::from_secs(cap_s));
    let mut violation = None;
    if let Some((idx, v, sc)) = out.violation {
        eprintln!(
            "[{prop}/{}] run {idx} violated: {} — {}; minimising (size {})",
            e.name(),
            v.class,
            v.detail,
            e.size(&sc)
        );
        let (msc, mv, steps) = minimise(e, sc, v, Duration::from_secs(if tier == Tier::Quick { 40 } else { 120 }));
        eprintln!("[{prop}/{}] minimised in {steps} steps to size {}", e.name(), e.size(&msc));
        let path = write_replay(prop, e.name(), seed, idx, &mv, &msc);
        // the minimised file must reproduce in a fresh process
        let exe = std::env::current_exe().unwrap();
        let st = std::process::Command::new(exe)
            .arg("replay")
            .arg(&path)
            .arg("--quiet")
            .status();
        match st {
            Ok(s) if s.code() == Some(1) => {}
            other => {
                eprintln!("HARNESS-ERROR: minimised replay {path} did not reproduce in a fresh process ({other:?})");
                std::process::exit(2);
            }
        }
        violation = Some((path, mv));
    }
    PartOut {
        engine: e.name().to_string(),
        runs: out.runs,
        stats: out.stats,
        wall: out.wall.as_secs_f64(),
        violation,
        distinct_key: distinct_key.to_string(),
    }
}

pub struct CheckSpec {
    pub level: &'static str,
    pub rule: String,
    pub assumptions: Vec<String>,
    pub components: Value,
}

pub fn finish(prop: &str, tier: Tier, seed: u64, spec: CheckSpec, parts: Vec<PartOut>, started: Instant) -> i32 {
    let mut evaluations = 0;
    let mut distinct = 0;
    let mut samples = Vec::new();
    let mut engines = serde_json::Map::new();
    let mut nviol = 0;
    let mut exit = 0;
    for p in &parts {
        evaluations += p.runs;
        distinct += p.stats.count(&p.distinct_key);
        for s in &p.stats.samples {
            if samples.len() < 4 {
                samples.push(json!({"engine": p.engine, "case": s}));
            }
        }
        let per_hour = if p.wall > 0.0 { (p.runs as f64 / p.wall * 3600.0) as u64 } else { 0 };
        engines.insert(
            p.engine.clone(),
            json!({
                "runs": p.runs,
                "wall_s": p.wall,
                "runs_per_hour": per_hour,
                "distinct_measure": p.distinct_key,
                "stats": stats_json(&p.stats),
            }),
        );
        if let Some((path, v)) = &p.violation {
            nviol += 1;
            exit = 1;
            println!("VIOLATION property={prop} replay={path}");
            println!("  class={} detail={}", v.class, v.detail);
        }
    }
    let wall = started.elapsed().as_secs_f64();
    write_evidence(&Evidence {
        property: prop,
        tier,
        seed,
        level: spec.level,
        evaluations: evaluations.max(1),
        distinct_nontrivial: distinct,
        rule: &spec.rule,
        samples,
        extra: json!({
            "engines": engines,
            "components": spec.components,
            "workers": workers(),
            "simulated_time": "gdsl has no clock; logical time is counted in calls / lock points / stream bytes under engines.*.stats.counters",
        }),
        assumptions: spec.assumptions,
        wall_s: wall,
        violations: nviol,
    });
    if exit == 0 {
        println!("OK property={prop} tier={} seed={seed} runs={evaluations} distinct={distinct} wall={wall:.1}s", tier.as_str());
    }
    exit
}

pub fn components() -> Value {
    json!({
        "real": ["all gdsl code from /repo's working tree (built through the shadow manifest)", "std::sync::RwLock (wrapped)", "Rc/Arc", "serde_json", "serde_cbor", "hashbrown/ahash hashing"],
        "simulated": ["thread scheduling and lock queue order (baton scheduler over the lock seam)", "ahash per-instance key source (hash seam)", "byte streams (simulated Read/Write)", "handle drop placement"],
        "stubbed": []
    })
}

fn budget(tier: Tier, quick: u64, thorough: u64) -> u64 {
    match tier {
        Tier::Quick => quick,
        Tier::Thorough => thorough,
    }
}

pub fn check(prop: &str, tier: Tier, seed: u64) -> i32 {
    let started = Instant::now();
    let cap = budget(tier, 120, 900);
    match prop {
        "C03" => {
            let e = Hist { verdict: Verdict::Contract };
            let p = run_part(prop, &e, seed, budget(tier, 60_000, 600_000), tier, cap, "state_op_outcome");
            finish(
                prop,
                tier,
                seed,
                CheckSpec {
                    level: "exploration",
                    rule: "seeded histories of connect/try_connect/disconnect/isolate/queries over the four flavours, every call made through a simulator-chosen handle provenance, checked call by call against the reference multigraph from both endpoints; distinct = distinct (abstract state shape, operation, subject, outcome class) tuples executed; tasks=1 (lock seam active in the sync flavours to report self-deadlock)".into(),
                    assumptions: vec!["all nodes stay alive for the whole run".into(), "reference model states only what C03 states (disconnect may remove any one live edge of the pair)".into()],
                    components: components(),
                },
                vec![p],
                started,
            )
        }
        "C01" | "C02" => {
            let e = Hist { verdict: if prop == "C01" { Verdict::Mirror } else { Verdict::Symmetry } };
            let p = run_part(prop, &e, seed, budget(tier, 40_000, 400_000), tier, cap, "state_op_outcome");
            finish(
                prop,
                tier,
                seed,
                CheckSpec {
                    level: "exploration",
                    rule: "seeded histories of edge operations; after every call the invariant is evaluated on the real nodes through the public API only (lists, degrees, predicates, lookups of both endpoints); distinct = distinct (abstract state shape, operation, subject, outcome class) tuples after which the invariant was evaluated".into(),
                    assumptions: vec!["all nodes stay alive for the whole run".into()],
                    components: components(),
                },
                vec![p],
                started,
            )
        }
        other => {
            eprintln!("unknown or not-applicable property {other}");
            2
        }
    }
}

pub fn replay(path: &str, quiet: bool) -> i32 {
    let text = match std::fs::read_to_string(path) {
        Ok(t) => t,
        Err(e) => {
            eprintln!("HARNESS-ERROR: cannot read {path}: {e}");
            return 2;
        }
    };
    let rf: ReplayFile = match serde_json::from_str(&text) {
        Ok(r) => r,
        Err(e) => {
            eprintln!("HARNESS-ERROR: replay file does not parse: {e}");
            return 2;
        }
    };
    let res = match (rf.engine.as_str(), rf.property.as_str()) {
        ("hist", p) => {
            let verdict = match p {
                "C01" => Verdict::Mirror,
                "C02" => Verdict::Symmetry,
                _ => Verdict::Contract,
            };
            replay_scenario(&Hist { verdict }, &rf)
        }
        (e, _) => Err(format!("unknown engine {e}")),
    };
    match res {
        Err(m) => {
            eprintln!("HARNESS-ERROR: {m}");
            2
        }
        Ok(None) => {
            if !quiet {
                println!("replay of {path}: no violation (recorded: {})", rf.violation.class);
            }
            0
        }
        Ok(Some(v)) => {
            if !quiet {
                println!("VIOLATION property={} replay={path}", rf.property);
                println!("  class={} detail={}", v.class, v.detail);
            }
            if v.class == rf.violation.class {
                1
            } else {
                if !quiet {
                    println!("  (recorded class was {})", rf.violation.class);
                }
                1
            }
        }
    }
}
