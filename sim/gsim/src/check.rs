//! Property checks: which engines decide which property, budgets, evidence.

use crate::engines::conc::Conc;
use crate::engines::hist::{Hist, Verdict};
use crate::runner::*;
use serde_json::{json, Value};
use std::process::{Command, Stdio};
use std::time::{Duration, Instant};

/// Engines are looked up by key (worker processes, replay files).
pub fn engine_by_key(key: &str) -> Option<Box<dyn DynEngine>> {
    Some(match key {
        "hist:contract" => Box::new(Hist { verdict: Verdict::Contract }),
        "hist:mirror" => Box::new(Hist { verdict: Verdict::Mirror }),
        "hist:symmetry" => Box::new(Hist { verdict: Verdict::Symmetry }),
        "conc" => Box::new(Conc { only_invariant: None }),
        "conc:mirror" => Box::new(Conc { only_invariant: Some(true) }),
        "conc:symmetry" => Box::new(Conc { only_invariant: Some(false) }),
        _ => return None,
    })
}

pub struct PartOut {
    pub engine: String,
    pub runs: u64,
    pub stats: Stats,
    pub wall: f64,
    pub violation: Option<(String, Violation)>,
    pub distinct_key: String,
}

fn confirm_in_fresh_process(path: &str) -> Option<i32> {
    let exe = std::env::current_exe().unwrap();
    let mut child = Command::new(exe)
        .arg("replay")
        .arg(path)
        .arg("--quiet")
        .stdin(Stdio::null())
        .spawn()
        .ok()?;
    let start = Instant::now();
    loop {
        if let Ok(Some(st)) = child.try_wait() {
            return st.code();
        }
        if start.elapsed() > Duration::from_secs(90) {
            let _ = child.kill();
            let _ = child.wait();
            return Some(124);
        }
        std::thread::sleep(Duration::from_millis(5));
    }
}

/// Runs one engine for one property: seeded batch on worker processes, then
/// (on a violation) minimisation, replay file, and a replay of that file in a
/// fresh process.
pub fn run_part(prop: &str, key: &str, seed: u64, runs: u64, tier: Tier, cap_s: u64, distinct_key: &str) -> PartOut {
    let e = engine_by_key(key).expect("engine key");
    let tag = format!("{prop}/{key}");
    let out = run_batch(key, &tag, seed, runs, tier, Duration::from_secs(cap_s));
    let mut violation = None;
    let hang_first = match (&out.violation, out.hung_at) {
        (Some((i, _, _)), Some(h)) => h < *i,
        (None, Some(_)) => true,
        _ => false,
    };
    if hang_first {
        let idx = out.hung_at.unwrap();
        let sc = e.generate_dyn(&tag, seed, tier, idx);
        let v = Violation::new("hang", format!("run {idx} made no progress for the stall limit (no seam reached): a call does not return"));
        let path = write_replay(prop, key, seed, idx, &v, &sc);
        eprintln!("[{tag}] run {idx} stalled; re-running it alone in a fresh process");
        match confirm_in_fresh_process(&path) {
            Some(124) => violation = Some((path, v)),
            other => {
                eprintln!("HARNESS-ERROR: stall of run {idx} did not reproduce in a fresh process ({other:?})");
                std::process::exit(2);
            }
        }
    } else if let Some((idx, v, sc)) = out.violation {
        eprintln!("[{tag}] run {idx} violated: {} — {}", v.class, v.detail);
        let budget = Duration::from_secs(if tier == Tier::Quick { 40 } else { 120 });
        let (msc, mv, steps, before, after) = e.minimise_dyn(sc, v, budget);
        eprintln!("[{tag}] minimised in {steps} steps: size {before} -> {after}");
        let path = write_replay(prop, key, seed, idx, &mv, &msc);
        match confirm_in_fresh_process(&path) {
            Some(1) => {}
            other => {
                eprintln!("HARNESS-ERROR: minimised replay {path} did not reproduce in a fresh process ({other:?})");
                std::process::exit(2);
            }
        }
        violation = Some((path, mv));
    }
    PartOut {
        engine: key.to_string(),
        runs: out.runs,
        stats: out.stats,
        wall: out.wall.as_secs_f64(),
        violation,
        distinct_key: distinct_key.to_string(),
    }
}

pub struct CheckSpec {
    pub level: &'static str,
    pub rule: String,
    pub assumptions: Vec<String>,
}

pub fn finish(prop: &str, tier: Tier, seed: u64, spec: CheckSpec, parts: Vec<PartOut>, started: Instant) -> i32 {
    let mut evaluations = 0;
    let mut distinct = 0;
    let mut samples = Vec::new();
    let mut engines = serde_json::Map::new();
    let mut nviol = 0;
    let mut exit = 0;
    for p in &parts {
        evaluations += p.runs;
        distinct += p.stats.count(&p.distinct_key);
        for s in &p.stats.samples {
            if samples.len() < 4 {
                samples.push(json!({"engine": p.engine, "case": s}));
            }
        }
        let per_hour = if p.wall > 0.0 { (p.runs as f64 / p.wall * 3600.0) as u64 } else { 0 };
        engines.insert(
            p.engine.clone(),
            json!({
                "runs": p.runs,
                "wall_s": p.wall,
                "runs_per_hour": per_hour,
                "distinct_measure": p.distinct_key,
                "stats": stats_json(&p.stats),
            }),
        );
        if let Some((path, v)) = &p.violation {
            nviol += 1;
            exit = 1;
            println!("VIOLATION property={prop} replay={path}");
            println!("  class={} detail={}", v.class, v.detail);
        }
    }
    let wall = started.elapsed().as_secs_f64();
    write_evidence(&Evidence {
        property: prop,
        tier,
        seed,
        level: spec.level,
        evaluations: evaluations.max(1),
        distinct_nontrivial: distinct,
        rule: &spec.rule,
        samples,
        extra: json!({
            "engines": engines,
            "components": components(),
            "worker_processes": workers(),
            "distinct_counting": "fingerprints are collected in 2^24-bit sketches per worker process and OR-ed; the reported numbers are set-bit counts, i.e. lower bounds of the number of distinct fingerprints",
            "simulated_time": "gdsl has no clock; logical time is counted in calls / lock points / stream bytes (engines.*.stats.counters)",
        }),
        assumptions: spec.assumptions,
        wall_s: wall,
        violations: nviol,
    });
    if exit == 0 {
        println!("OK property={prop} tier={} seed={seed} runs={evaluations} distinct>={distinct} wall={wall:.1}s", tier.as_str());
    }
    exit
}

pub fn components() -> Value {
    json!({
        "real": ["all gdsl code from /repo's working tree (built through the shadow manifest)", "std::sync::RwLock and Mutex (wrapped, real lock taken after the simulated grant)", "Rc/Arc", "serde_json", "serde_cbor", "hashbrown tables with ahash hashing"],
        "simulated": ["thread scheduling and lock queue order (baton scheduler over the lock seam)", "ahash per-instance key source (hash seam)", "byte streams (simulated Read/Write, stored-document mutation)", "handle drop placement"],
        "stubbed": []
    })
}

fn budget(tier: Tier, quick: u64, thorough: u64) -> u64 {
    match tier {
        Tier::Quick => quick,
        Tier::Thorough => thorough,
    }
}

pub fn check(prop: &str, tier: Tier, seed: u64) -> i32 {
    let started = Instant::now();
    let cap = budget(tier, 150, 1200);
    match prop {
        "C03" => {
            let p = run_part(prop, "hist:contract", seed, budget(tier, 400_000, 6_000_000), tier, cap, "state_op_outcome");
            finish(
                prop,
                tier,
                seed,
                CheckSpec {
                    level: "exploration",
                    rule: "seeded histories of connect/try_connect/disconnect/isolate/queries over the four flavours, every call made through a simulator-chosen handle provenance, checked call by call against the reference multigraph and read back from both endpoints; distinct = distinct (abstract state shape, operation, subject, outcome class) tuples executed; tasks=1 (lock seam active in the sync flavours to report self-deadlock)".into(),
                    assumptions: vec!["all nodes stay alive for the whole run".into(), "reference model states only what C03 states (disconnect may remove any one live edge of the pair)".into()],
                },
                vec![p],
                started,
            )
        }
        "C01" | "C02" => {
            let (hk, ck) = if prop == "C01" { ("hist:mirror", "conc:mirror") } else { ("hist:symmetry", "conc:symmetry") };
            let p1 = run_part(prop, hk, seed, budget(tier, 250_000, 4_000_000), tier, cap, "state_op_outcome");
            let p2 = run_part(prop, ck, seed, budget(tier, 40_000, 600_000), tier, cap, "interleavings");
            finish(
                prop,
                tier,
                seed,
                CheckSpec {
                    level: "exploration",
                    rule: "hist: seeded histories of edge operations, invariant evaluated on the real nodes through the public API after every call (distinct = (abstract state shape, operation, subject, outcome class) tuples). conc: seeded concurrent scenarios on the sync flavour under the seeded scheduler, invariant evaluated at quiescence (distinct = (scenario, lock-grant sequence) pairs)".into(),
                    assumptions: vec!["all nodes stay alive for the whole run".into()],
                },
                vec![p1, p2],
                started,
            )
        }
        "C17" => {
            let p = run_part(prop, "conc", seed, budget(tier, 150_000, 3_000_000), tier, cap, "interleavings");
            finish(
                prop,
                tier,
                seed,
                CheckSpec {
                    level: "exploration",
                    rule: "seeded concurrent scenarios (2-4 simulated caller threads x 1-7 calls over 1-5 shared sync nodes, seeded initial edges incl. self-loops and parallel edges) run under a seeded scheduler that decides every interleaving of lock acquisitions and the lock's queueing policy (writer preference on/off); verdicts: deadlock, step-budget overrun, panic/poison, quiescent mirror/symmetry invariant, serialisability of the mutating calls' return values and final graph against the reference model; distinct = distinct (scenario, sequence of lock grants) pairs".into(),
                    assumptions: vec![
                        "context switches only at lock acquisitions: all shared mutable state of the sync flavours lives under the per-node RwLock and the mutation mutex".into(),
                        "all nodes stay alive for the whole run".into(),
                        "std::sync::RwLock behaviour is over-approximated by {writer preference on, off} x any wake order".into(),
                    ],
                },
                vec![p],
                started,
            )
        }
        other => {
            eprintln!("unknown or not-applicable property {other}");
            2
        }
    }
}

pub fn replay(path: &str, quiet: bool) -> i32 {
    let text = match std::fs::read_to_string(path) {
        Ok(t) => t,
        Err(e) => {
            eprintln!("HARNESS-ERROR: cannot read {path}: {e}");
            return 2;
        }
    };
    let rf: ReplayFile = match serde_json::from_str(&text) {
        Ok(r) => r,
        Err(e) => {
            eprintln!("HARNESS-ERROR: replay file does not parse: {e}");
            return 2;
        }
    };
    let Some(e) = engine_by_key(&rf.engine) else {
        eprintln!("HARNESS-ERROR: unknown engine {}", rf.engine);
        return 2;
    };
    match e.replay_dyn(&rf.scenario) {
        Err(m) => {
            eprintln!("HARNESS-ERROR: {m}");
            2
        }
        Ok(None) => {
            if !quiet {
                println!("replay of {path}: no violation (recorded: {})", rf.violation.class);
            }
            0
        }
        Ok(Some(v)) => {
            if !quiet {
                println!("VIOLATION property={} replay={path}", rf.property);
                println!("  class={} detail={}", v.class, v.detail);
                if v.class != rf.violation.class {
                    println!("  (recorded class was {})", rf.violation.class);
                }
            }
            1
        }
    }
}
