//! Property checks: which engines decide which property, budgets, evidence.

use crate::engines::conc::Conc;
use crate::engines::hist::{Hist, Verdict};
use crate::runner::*;
use serde_json::{json, Value};
use std::process::{Command, Stdio};
use std::time::{Duration, Instant};

/// Engines are looked up by key (worker processes, replay files).
pub fn engine_by_key(key: &str) -> Option<Box<dyn DynEngine>> {
    Some(match key {
        "hist:contract" => Box::new(Hist { verdict: Verdict::Contract }),
        "hist:mirror" => Box::new(Hist { verdict: Verdict::Mirror }),
        "hist:symmetry" => Box::new(Hist { verdict: Verdict::Symmetry }),
        "inject" => Box::new(crate::engines::inject::Inject),
        "scc" => Box::new(crate::engines::scc::Scc),
        "container" => Box::new(crate::engines::container::Container),
        "lifetime" => Box::new(crate::engines::lifetime::Lifetime),
        "twin" => Box::new(crate::engines::twin::Twin),
        "debug:hang" => Box::new(crate::engines::debug::Debug { kind: "hang" }),
        "debug:crash" => Box::new(crate::engines::debug::Debug { kind: "crash" }),
        "debug:history" => Box::new(crate::engines::debug::Debug { kind: "history" }),
        "roundtrip" => Box::new(crate::engines::serde_eng::RoundTrip),
        "untrusted" => Box::new(crate::engines::serde_eng::Untrusted),
        "conc" => Box::new(Conc { only_invariant: None }),
        "conc:mirror" => Box::new(Conc { only_invariant: Some(true) }),
        "conc:symmetry" => Box::new(Conc { only_invariant: Some(false) }),
        _ => return None,
    })
}

fn replay_timeout_s() -> u64 {
    std::env::var("GSIM_REPLAY_TIMEOUT_S").ok().and_then(|s| s.parse().ok()).unwrap_or(300)
}

pub struct PartOut {
    pub engine: String,
    /// runs the batch was asked for
    pub budgeted: u64,
    pub runs: u64,
    pub stats: Stats,
    pub wall: f64,
    pub violation: Option<(String, Violation)>,
    pub distinct_key: String,
}

fn confirm_in_fresh_process(path: &str) -> Option<i32> {
    let exe = std::env::current_exe().unwrap();
    let mut child = Command::new(exe)
        .arg("replay")
        .arg(path)
        .arg("--quiet")
        .stdin(Stdio::null())
        .spawn()
        .ok()?;
    let start = Instant::now();
    loop {
        if let Ok(Some(st)) = child.try_wait() {
            use std::os::unix::process::ExitStatusExt;
            return st.code().or_else(|| st.signal().map(|s| 128 + s));
        }
        if start.elapsed() > Duration::from_secs(replay_timeout_s()) {
            let _ = child.kill();
            let _ = child.wait();
            return Some(124);
        }
        std::thread::sleep(Duration::from_millis(5));
    }
}

/// `gsim minimise <replay-file> <budget-s>`: reduces the scenario of a replay file and keeps
/// `<replay-file>.min` up to date with the smallest scenario confirmed so far.
pub fn minimise_file(path: &str, budget_s: u64) -> i32 {
    let Ok(text) = std::fs::read_to_string(path) else { return 2 };
    let Ok(rf) = serde_json::from_str::<ReplayFile>(&text) else { return 2 };
    let Some(e) = engine_by_key(&rf.engine) else { return 2 };
    let out = format!("{path}.min");
    let tmp = format!("{path}.min.tmp");
    let _ = std::fs::remove_file(&out);
    let (property, engine, seed, run) = (rf.property.clone(), rf.engine.clone(), rf.seed, rf.run);
    let (_, _, _, b, _) = e.minimise_dyn(rf.scenario, rf.violation, Duration::from_secs(budget_s), &mut |sc, v, steps, size| {
        let m = serde_json::json!({
            "replay": ReplayFile { property: property.clone(), engine: engine.clone(), seed, run, violation: v.clone(), scenario: sc.clone(), sequence: None },
            "steps": steps,
            "size": size,
        });
        // (atomically: the parent reads whatever is there when this process ends, however it ends)
        if std::fs::write(&tmp, serde_json::to_vec(&m).unwrap()).is_ok() {
            let _ = std::fs::rename(&tmp, &out);
        }
    });
    println!("{b}");
    0
}

/// (scenario, violation, steps, size before, size after, exit status of the minimiser)
fn minimise_in_fresh_process(path: &str, budget: Duration) -> Option<(Value, Violation, u64, usize, usize, Option<i32>)> {
    let exe = std::env::current_exe().unwrap();
    let out = Command::new(exe)
        .arg("minimise")
        .arg(path)
        .arg(budget.as_secs().to_string())
        .stdin(Stdio::null())
        .stderr(Stdio::null())
        .output()
        .ok()?;
    use std::os::unix::process::ExitStatusExt;
    let status = out.status.code().or_else(|| out.status.signal().map(|s| 128 + s));
    let min = format!("{path}.min");
    let text = std::fs::read_to_string(&min).ok();
    let _ = std::fs::remove_file(&min);
    let _ = std::fs::remove_file(format!("{path}.min.tmp"));
    let m: Value = serde_json::from_str(&text?).ok()?;
    let rf: ReplayFile = serde_json::from_value(m.get("replay")?.clone()).ok()?;
    let after = m.get("size")?.as_u64()? as usize;
    let steps = m.get("steps")?.as_u64()?;
    let before = String::from_utf8_lossy(&out.stdout).trim().parse::<usize>().unwrap_or(0);
    Some((rf.scenario, rf.violation, steps, before, after, status))
}

/// Runs one engine for one property: seeded batch on worker processes, then
/// (on a violation) minimisation, replay file, and a replay of that file in a
/// fresh process.
pub fn run_part(prop: &str, key: &str, seed: u64, runs: u64, tier: Tier, cap_s: u64, distinct_key: &str) -> PartOut {
    let first = run_part_once(prop, key, seed, runs, tier, cap_s, distinct_key);
    if first.violation.is_none() && first.stats.counters.get("worker_stalls_not_reproducible_machine_load").copied().unwrap_or(0) > 0 && std::env::var("GSIM_STALL_S").is_err() {
        // a stall that was machine load ended the batch early: once more, with a stall limit the
        // load cannot reach (the workers inherit the variable)
        eprintln!("[{prop}/{key}] the batch was cut short by a stall that was machine load; running it again with a stall limit of 900 s");
        std::env::set_var("GSIM_STALL_S", "900");
        let mut second = run_part_once(prop, key, seed, runs, tier, cap_s, distinct_key);
        std::env::remove_var("GSIM_STALL_S");
        second.stats.inc("batches_repeated_after_a_stall_that_was_machine_load");
        return second;
    }
    first
}

fn run_part_once(prop: &str, key: &str, seed: u64, runs: u64, tier: Tier, cap_s: u64, distinct_key: &str) -> PartOut {
    let e = engine_by_key(key).expect("engine key");
    let tag = format!("{prop}/{key}");
    let out = run_batch(key, &tag, seed, runs, tier, Duration::from_secs(cap_s));
    if !out.worker_errors.is_empty() {
        for e in &out.worker_errors {
            eprintln!("HARNESS-ERROR: {e}");
        }
        std::process::exit(2);
    }
    let mut violation = None;
    let mut spurious_stall = false;
    let hang_first = match (&out.violation, out.hung_at) {
        (Some((i, _, _)), Some(h)) => h < *i,
        (None, Some(_)) => true,
        _ => false,
    };
    if hang_first {
        let idx = out.hung_at.unwrap();
        let sc = e.generate_dyn(&tag, seed, tier, idx);
        let v = Violation::new("hang", format!("run {idx} made no progress for the stall limit (no seam reached): a call does not return"));
        let path = write_replay(prop, key, seed, idx, &v, &sc);
        eprintln!("[{tag}] run {idx} stalled; re-running it alone in a fresh process");
        match confirm_in_fresh_process(&path) {
            Some(124) => violation = Some((path, v)),
            Some(101) | Some(3) => {
                eprintln!("HARNESS-ERROR: run {idx} panics inside the harness itself; see `gsim replay {path}`");
                std::process::exit(2);
            }
            Some(c) if c != 0 && c != 1 && c != 2 => {
                // the process died (signal / abort) again: a crash, reproducible from the file
                let v = Violation::new("crash", format!("run {idx} kills the process (exit status {c}) — abort, stack overflow or memory error"));
                let path = write_replay(prop, key, seed, idx, &v, &sc);
                violation = Some((path, v));
            }
            Some(1) => {
                // run alone it ends with a violation of its own: report that one
                eprintln!("[{tag}] run {idx} alone ends with a violation; reporting it unminimised");
                let v = Violation::new("violation-after-stall", format!("run {idx}: see `./check {prop} --replay {path}`"));
                violation = Some((path, v));
            }
            other => {
                // not reproducible alone: does it depend on what the same process ran before?
                // Re-run that worker's whole index sequence up to this run in a fresh process.
                let _ = std::fs::remove_file(&path);
                let seq = Sequence { tag: tag.clone(), tier: tier.as_str().to_string(), offset: idx % out.workers, stride: out.workers };
                let spath = write_sequence_replay(prop, key, seed, idx, &v, &sc, seq);
                match confirm_in_fresh_process(&spath) {
                    Some(124) => violation = Some((spath, v)),
                    Some(c) if c != 0 && c != 1 && c != 2 && c != 3 && c != 101 => {
                        let v = Violation::new("crash", format!("the sequence of runs up to {idx} kills the process (exit status {c})"));
                        violation = Some((spath, v));
                    }
                    Some(1) => {
                        let v = Violation::new("violation-after-stall", format!("see `./check {prop} --replay {spath}`"));
                        violation = Some((spath, v));
                    }
                    again => {
                        // the machine was too busy for the stall limit. No verdict, no error; the
                        // indices that worker had left are simply not covered by this run.
                        eprintln!("[{tag}] note: stall of run {idx} did not reproduce in a fresh process ({other:?}, sequence: {again:?}); treated as machine load");
                        let _ = std::fs::remove_file(&spath);
                        spurious_stall = true;
                    }
                }
            }
        }
    }
    if violation.is_some() {
        // decided above
    } else if !hang_first || spurious_stall {
      if let Some((idx, v, sc)) = out.violation {
        eprintln!("[{tag}] run {idx} violated: {} — {}", v.class, v.detail);
        let (v0, sc0) = (v.clone(), sc.clone());
        let budget = Duration::from_secs(if tier == Tier::Quick { 40 } else { 120 });
        // (in a process of its own: a reduced scenario may make the library kill the process —
        // stack overflow, abort —, which must not take the report with it)
        let p0 = write_replay(prop, key, seed, idx, &v, &sc);
        let (msc, mv) = match minimise_in_fresh_process(&p0, budget) {
            Some((msc, mv, steps, before, after, status)) => {
                eprintln!("[{tag}] minimised in {steps} steps: size {before} -> {after}");
                if status != Some(0) {
                    eprintln!("[{tag}] note: the minimiser's process ended abnormally ({status:?}) on a later candidate; keeping the smallest scenario it had confirmed");
                }
                (msc, mv)
            }
            None => {
                eprintln!("[{tag}] note: no reduction was confirmed (a candidate may have ended the minimiser's process); reporting the scenario as found");
                (sc, v)
            }
        };
        let path = write_replay(prop, key, seed, idx, &mv, &msc);
        match confirm_in_fresh_process(&path) {
            Some(1) => violation = Some((path, mv)),
            other => {
                // the failure needs what the process executed before (state the library keeps
                // across calls): fall back to the unminimised scenario, then to the worker's
                // whole sequence of runs
                eprintln!("[{tag}] minimised replay did not reproduce alone ({other:?}); trying the original scenario and the run sequence");
                let _ = std::fs::remove_file(&path);
                let p2 = write_replay(prop, key, seed, idx, &v0, &sc0);
                if confirm_in_fresh_process(&p2) == Some(1) {
                    violation = Some((p2, v0));
                } else {
                    let _ = std::fs::remove_file(&p2);
                    let seq = Sequence { tag: tag.clone(), tier: tier.as_str().to_string(), offset: idx % out.workers, stride: out.workers };
                    let p3 = write_sequence_replay(prop, key, seed, idx, &v0, &sc0, seq);
                    match confirm_in_fresh_process(&p3) {
                        Some(1) => violation = Some((p3, v0)),
                        other => {
                            eprintln!("HARNESS-ERROR: the violation of run {idx} reproduces neither alone nor as a sequence in a fresh process ({other:?})");
                            std::process::exit(2);
                        }
                    }
                }
            }
        }
      }
    }
    let mut stats = out.stats;
    if spurious_stall {
        stats.inc("worker_stalls_not_reproducible_machine_load");
    }
    if violation.is_none() && out.runs * 10 < runs * 9 {
        eprintln!(
            "NOTE: [{tag}] only {} of the {runs} budgeted runs were executed (time cap or machine load): no verdict is affected, coverage is smaller than usual",
            out.runs
        );
    }
    PartOut {
        engine: key.to_string(),
        budgeted: runs,
        runs: out.runs,
        stats,
        wall: out.wall.as_secs_f64(),
        violation,
        distinct_key: distinct_key.to_string(),
    }
}

pub struct CheckSpec {
    pub level: &'static str,
    pub rule: String,
    pub assumptions: Vec<String>,
}

pub fn finish(prop: &str, tier: Tier, seed: u64, spec: CheckSpec, parts: Vec<PartOut>, started: Instant) -> i32 {
    let mut evaluations = 0;
    let mut distinct = 0;
    let mut samples = Vec::new();
    let mut engines = serde_json::Map::new();
    let mut nviol = 0;
    let mut exit = 0;
    for p in &parts {
        evaluations += p.runs;
        distinct += p.stats.count(&p.distinct_key);
        for s in &p.stats.samples {
            if samples.len() < 4 {
                samples.push(json!({"engine": p.engine, "case": s}));
            }
        }
        let per_hour = if p.wall > 0.0 { (p.runs as f64 / p.wall * 3600.0) as u64 } else { 0 };
        engines.insert(
            p.engine.clone(),
            json!({
                "runs": p.runs,
                "budgeted_runs": p.budgeted,
                "wall_s": p.wall,
                "runs_per_hour": per_hour,
                "distinct_measure": p.distinct_key,
                "stats": stats_json(&p.stats),
            }),
        );
        if let Some((path, v)) = &p.violation {
            nviol += 1;
            exit = 1;
            println!("VIOLATION property={prop} replay={path}");
            println!("  class={} detail={}", v.class, v.detail);
        }
    }
    let wall = started.elapsed().as_secs_f64();
    write_evidence(&Evidence {
        property: prop,
        tier,
        seed,
        level: spec.level,
        evaluations: evaluations.max(1),
        distinct_nontrivial: distinct,
        rule: &spec.rule,
        samples,
        extra: json!({
            "engines": engines,
            "components": components(),
            "worker_processes": workers(),
            "distinct_counting": "fingerprints are collected in fixed-size bit sketches (2^25 bits quick, 2^27 thorough) per worker process and OR-ed; the reported numbers are set-bit counts, i.e. lower bounds of the number of distinct fingerprints",
            "simulated_time": "gdsl has no clock; logical time is counted in calls / lock points / stream bytes (engines.*.stats.counters)",
        }),
        assumptions: spec.assumptions,
        wall_s: wall,
        violations: nviol,
    });
    if exit == 0 {
        println!("OK property={prop} tier={} seed={seed} runs={evaluations} distinct>={distinct} wall={wall:.1}s", tier.as_str());
    }
    exit
}

pub fn components() -> Value {
    json!({
        "real": ["all gdsl code from /repo's working tree (built through the shadow manifest)", "std::sync::RwLock and Mutex (wrapped, real lock taken after the simulated grant)", "Rc/Arc", "serde_json", "serde_cbor", "hashbrown tables with ahash hashing"],
        "simulated": ["thread scheduling and lock queue order (baton scheduler over the lock seam)", "ahash per-instance key source (hash seam)", "byte streams (simulated Read/Write, stored-document mutation)", "handle drop placement"],
        "stubbed": []
    })
}

fn budget(tier: Tier, quick: u64, thorough: u64) -> u64 {
    match tier {
        Tier::Quick => quick,
        Tier::Thorough => thorough,
    }
}

pub fn check(prop: &str, tier: Tier, seed: u64) -> i32 {
    let started = Instant::now();
    let cap = budget(tier, 150, 1200);
    match prop {
        "C03" => {
            let p = run_part(prop, "hist:contract", seed, budget(tier, 1_500_000, 20_000_000), tier, cap, "state_op_outcome");
            finish(
                prop,
                tier,
                seed,
                CheckSpec {
                    level: "exploration",
                    rule: "seeded histories of connect/try_connect/disconnect/isolate/queries over the four flavours, every call made through a simulator-chosen handle provenance, checked call by call against the reference multigraph and read back from both endpoints; distinct = distinct (abstract state shape, operation, subject, outcome class) tuples executed; a quarter of the runs sample the small space (<= 3 nodes, <= 4 live edges in creation order, every edge operation with every operand) uniformly: its (flavour, state, operation) triples number 4 x 249054 = 996216 and the counter distinct_lower_bounds.small_state_x_operation says how many of them this run executed; tasks=1 (lock seam active in the sync flavours to report self-deadlock)".into(),
                    assumptions: vec!["all nodes stay alive for the whole run".into(), "reference model states only what C03 states (disconnect may remove any one live edge of the pair)".into()],
                },
                vec![p],
                started,
            )
        }
        "C01" | "C02" => {
            let (hk, ck) = if prop == "C01" { ("hist:mirror", "conc:mirror") } else { ("hist:symmetry", "conc:symmetry") };
            let p1 = run_part(prop, hk, seed, budget(tier, 1_000_000, 12_000_000), tier, cap, "state_op_outcome");
            let p2 = run_part(prop, ck, seed, budget(tier, 200_000, 2_500_000), tier, cap, "interleavings");
            finish(
                prop,
                tier,
                seed,
                CheckSpec {
                    level: "exploration",
                    rule: "hist: seeded histories of edge operations, invariant evaluated on the real nodes through the public API after every call (distinct = (abstract state shape, operation, subject, outcome class) tuples). conc: seeded concurrent scenarios on the sync flavour under the seeded scheduler, invariant evaluated at quiescence (distinct = (scenario, lock-grant sequence) pairs)".into(),
                    assumptions: vec!["all nodes stay alive for the whole run".into()],
                },
                vec![p1, p2],
                started,
            )
        }
        "C17" => {
            let p = run_part(prop, "conc", seed, budget(tier, 400_000, 5_000_000), tier, cap, "interleavings");
            finish(
                prop,
                tier,
                seed,
                CheckSpec {
                    level: "exploration",
                    rule: "seeded concurrent scenarios (2-4 simulated caller threads x 1-7 calls over 1-5 shared sync nodes, seeded initial edges incl. self-loops and parallel edges) run under a seeded scheduler that decides every interleaving of lock acquisitions and the lock's queueing policy (writer preference on/off); verdicts: deadlock, step-budget overrun, panic/poison, quiescent mirror/symmetry invariant, serialisability of the mutating calls' return values and final graph against the reference model, and read consistency: a query, snapshot, container view or directed traversal whose answer no call of another task can change (per list side, per node pair, per reachable set; next to read-only tasks: everything) must return what it returns sequentially; for a small share of the tiniest scenarios (<= 3 tasks, <= 3 calls) every schedule is enumerated depth-first under both queueing policies (budget 1200 schedules each; counters scenarios_with_every_schedule_enumerated / scenarios_enumeration_cut_by_budget) — a complement, the deciding step remains the seeded search; distinct = distinct (scenario, sequence of lock grants) pairs".into(),
                    assumptions: vec![
                        "context switches only at lock acquisitions: all shared mutable state of the sync flavours lives under the per-node RwLock and the mutation mutex".into(),
                        "all nodes stay alive for the whole run".into(),
                        "std::sync::RwLock behaviour is over-approximated by {writer preference on, off} x any wake order".into(),
                    ],
                },
                vec![p],
                started,
            )
        }
        "C20" => {
            let p = run_part(prop, "inject", seed, budget(tier, 5_000_000, 60_000_000), tier, cap, "host_script_plan");
            finish(
                prop,
                tier,
                seed,
                CheckSpec {
                    level: "exploration",
                    rule: "seeded (graph, host loop, script, firing plan) tuples over the four flavours: hosts are iter_out/iter_in/`for e in &node`/iter (plain `for` loops, and driven through size_hint() around every next() or through .map(body).collect()) and bfs/dfs/pfs-min/pfs-max x search/search_path/search_cycle and pre/postorder x search_nodes/search_edges with for_each or filter (transposed too); the script (edge operations on the cursor's endpoints and other nodes through every handle provenance, queries, nested iteration and searches, container calls) fires at simulator-chosen steps, optionally with one operation that adds no edge (nested search of the host's kind, nested iteration, query, disconnect of the edge under the cursor, to_vec) fired at EVERY step; oracle per step: no panic/self-deadlock, the yielded edge is live now with true endpoints and value, injected calls obey the reference model, bounded termination after the last injection, graph = model after the loop read through handles taken before and during the loop; a host that fails without any injection is not a verdict; distinct = distinct (flavour, graph, host, script, plan) tuples".into(),
                    assumptions: vec![
                        "one task: re-entrancy is the interleaving under test; in the sync flavours the lock seam turns a guard kept across a step into a reported self-deadlock".into(),
                        "'yields' = handed to the loop body or closure; edges inside a returned path are not required to be still alive".into(),
                    ],
                },
                vec![p],
                started,
            )
        }
        "C11" => {
            let p = run_part(prop, "scc", seed, budget(tier, 1_500_000, 20_000_000), tier, cap, "graph_and_container_order");
            finish(
                prop,
                tier,
                seed,
                CheckSpec {
                    level: "exploration",
                    rule: "seeded directed graphs (sparse/dense random, cycles sharing nodes with chords, DAG with back edges, chains of components, gadget fields; self-loops, parallel edges, isolated nodes; 1-30 nodes, one run in 15000 with 700-1800 nodes) in digraph and sync_digraph containers; per graph 2-4 container instances, each with its own simulated hash seed (iteration order) and insertion order; scc() must be a partition of the members equal, as a set of sets, to the strongly connected components computed by an iterative Tarjan reference (cross-checked against a reachability closure on every graph of <= 12 nodes); a third of the scenarios then change edges through the node handles (connect/disconnect/isolate) and call scc() again on the SAME container instance; distinct = distinct (flavour, graph, observed container iteration order) triples".into(),
                    assumptions: vec!["containers are closed under neighbours (the property's precondition)".into()],
                },
                vec![p],
                started,
            )
        }
        "C12" => {
            let p = run_part(prop, "roundtrip", seed, budget(tier, 2_000_000, 30_000_000), tier, cap, "graph_wire_orders");
            finish(
                prop,
                tier,
                seed,
                CheckSpec {
                    level: "exploration",
                    rule: "seeded graphs (1-40 nodes, self-loops, parallel edges in both orientations, distinct values; a fifth with a hub of 6-40 edges; a third reshaped by disconnect/isolate/try_connect after construction) in each of the four containers, JSON and CBOR; simulated hash seeds on the serialising and on the deserialising side (container iteration order), seeded insertion order; three configurations kept apart: in memory, through simulated streams with benign behaviour only (short writes/reads, EINTR), through streams with one hard fault (I/O error or write-zero/EOF at byte k); oracle: same keys, node values, per-node ordered out-list (directed) or incident multiset (undirected), copy satisfies the mirror/symmetry invariant; under a hard fault Err or an equal graph, never a panic; distinct = distinct (flavour, wire, graph, serialising order, deserialising order) tuples".into(),
                    assumptions: vec!["containers are closed under neighbours".into(), "a benign stream behaviour the wire library itself cannot cope with (checked on plain tuples) is not a gdsl verdict".into()],
                },
                vec![p],
                started,
            )
        }
        "C13" => {
            let p = run_part(prop, "untrusted", seed, budget(tier, 50_000, 700_000), tier, cap, "mutated_documents");
            let docs = p.stats.get("documents");
            let mut p = p;
            p.runs = docs.max(p.runs);
            finish(
                prop,
                tier,
                seed,
                CheckSpec {
                    level: "fault_enumeration",
                    rule: "per seeded base document (valid document of a small graph, four container types, JSON and CBOR): every truncation offset, every structural mutation of the document tree (drop/duplicate/redeclare/retype/shorten a node or edge element, retarget an edge end to a declared or an undeclared key, drop the edge list, drop both, extra element, list replaced by scalar, top-level map) and at every offset of documents up to 120 bytes every structurally meaningful byte value of the format (CBOR major-type/length headers, JSON punctuation), seeded pairs of structural mutations and seeded byte damage (bit flip, byte drop, duplicate, overwrite); a third of the base documents are delivered through a faulty reader (short reads, EINTR, I/O error at k); oracle = the property's disjunction: no panic/hang; Ok(g) => g satisfies mirror/symmetry, lists only members, every node and edge of g is declared by the document (independent strict parse into plain tuples) with at most the listed multiplicity; any listed edge naming an undeclared key => Err; evaluations = mutated documents deserialised; distinct = distinct (flavour, document bytes)".into(),
                    assumptions: vec!["a panic of serde_json/serde_cbor that also occurs when the same bytes are decoded into plain tuples is a dependency defect (counted, not a verdict)".into()],
                },
                vec![p],
                started,
            )
        }
        "C18" => {
            let p = run_part(prop, "container", seed, budget(tier, 3_000_000, 40_000_000), tier, cap, "state_and_call");
            finish(
                prop,
                tier,
                seed,
                CheckSpec {
                    level: "exploration",
                    rule: "seeded histories of container calls (insert of fresh keys, of present keys and of a distinct node object with a present key, remove, get, index, contains, len, is_empty, to_vec, iter, roots/leaves/orphans, to_dot, to_dot_with_attr with seeded attribute callbacks, rebuilding the container as a new instance via new()/default()/with_capacity() with another simulated hash seed; insert/remove while the container holds the node's only handle; an edge between two node objects with the same key) interleaved with edge operations on members and non-members through container handles; compared call by call with a BTreeMap model; views compared as key sets against the reference multigraph; DOT text parsed into node and edge statements; distinct = distinct (member set, abstract edge state, call kind) triples".into(),
                    assumptions: vec!["keys are usize; node identity is observed through the node value's id".into()],
                },
                vec![p],
                started,
            )
        }
        "C19" => {
            let p = run_part(prop, "lifetime", seed, budget(tier, 1_500_000, 20_000_000), tier, cap, "history_and_drop_order");
            finish(
                prop,
                tier,
                seed,
                CheckSpec {
                    level: "exploration",
                    rule: "seeded histories over the four flavours: build (cycles, self-loops, parallel edges), take handles (clones, iterated edges, neighbour lookups from every node to every key, bfs/dfs/pfs paths, cycles and found nodes, pre/postorder node and edge lists, containers, to_vec and scc output), then drop node handles and result handles one by one in a simulator-chosen order (sync flavours: a simulator-chosen subset of the drops on another thread); node and edge values are registered in a per-run registry; after every drop: no value of a node with a live handle is released, held results stay usable, nothing dropped twice; after the last drop: every node value and every edge-value instance released exactly once; distinct = distinct (flavour, history, handles taken, drop order, thread placement) tuples".into(),
                    assumptions: vec!["iteration is only performed while every neighbour is alive (the library's documented precondition)".into(), "drops on another thread are sequential (joined), the racing of reference counts is not simulated".into()],
                },
                vec![p],
                started,
            )
        }
        "C15" => {
            let p = run_part(prop, "twin", seed, budget(tier, 2_000_000, 25_000_000), tier, cap, "call_and_result");
            finish(
                prop,
                tier,
                seed,
                CheckSpec {
                    level: "exploration",
                    rule: "the same seeded single-threaded call sequence (edge operations through every handle provenance, queries, edge iteration, bfs/dfs/pfs-min/pfs-max x search/search_path/search_cycle and pre/postorder x nodes/edges with target, transpose, for_each and filter, container calls, roots/leaves/orphans, scc, to_dot, to_dot_with_attr, JSON and CBOR serialisation and round trip, Edge ==, Edge::reverse, Node ==/cmp/deref) is executed on digraph and sync_digraph (resp. ungraph and sync_ungraph) with the same simulated hash seed and the two logs of results (keys and values; container-ordered output canonicalised) are diffed call by call; calls existing on one side only are skipped; distinct = distinct (pair, call, result) triples compared".into(),
                    assumptions: vec!["one task by the property's own restriction; the lock seam is active on the sync side so that a self-deadlock shows up as a failing call".into(), "panic messages are not compared, only the fact that a call failed".into()],
                },
                vec![p],
                started,
            )
        }
        other => {
            eprintln!("unknown or not-applicable property {other}");
            2
        }
    }
}

pub fn replay(path: &str, quiet: bool) -> i32 {
    let text = match std::fs::read_to_string(path) {
        Ok(t) => t,
        Err(e) => {
            eprintln!("HARNESS-ERROR: cannot read {path}: {e}");
            return 2;
        }
    };
    let rf: ReplayFile = match serde_json::from_str(&text) {
        Ok(r) => r,
        Err(e) => {
            eprintln!("HARNESS-ERROR: replay file does not parse: {e}");
            return 2;
        }
    };
    let Some(e) = engine_by_key(&rf.engine) else {
        eprintln!("HARNESS-ERROR: unknown engine {}", rf.engine);
        return 2;
    };
    if let Some(seq) = &rf.sequence {
        return match run_sequence(e.as_ref(), seq, rf.seed, rf.run) {
            Some((i, v)) => {
                if !quiet {
                    println!("VIOLATION property={} replay={path}", rf.property);
                    println!("  class={} detail=run {i} of the sequence: {}", v.class, v.detail);
                }
                1
            }
            None => {
                if !quiet {
                    println!("replay of {path}: the sequence up to run {} ends without a violation (recorded: {})", rf.run, rf.violation.class);
                }
                0
            }
        };
    }
    match e.replay_dyn(&rf.scenario) {
        Err(m) => {
            eprintln!("HARNESS-ERROR: {m}");
            2
        }
        Ok(None) => {
            if !quiet {
                println!("replay of {path}: no violation (recorded: {})", rf.violation.class);
            }
            0
        }
        Ok(Some(v)) => {
            if !quiet {
                println!("VIOLATION property={} replay={path}", rf.property);
                println!("  class={} detail={}", v.class, v.detail);
                if v.class != rf.violation.class {
                    println!("  (recorded class was {})", rf.violation.class);
                }
            }
            1
        }
    }
}
