#!/bin/sh
# usage: tools/try_mutant.sh <patch.diff> <ID> [<ID> ...]
# Applies a seeded change to /repo, runs the quick checks of the given properties against it,
# and undoes the change straight afterwards. Evidence files are restored from git afterwards
# (evidence must only ever come from the unchanged tree).
PATCH="$1"; shift
HERE=$(cd "$(dirname "$0")/.." && pwd)
if ! git -C /repo diff --quiet; then echo "refusing: /repo has uncommitted changes" >&2; exit 2; fi
git -C /repo apply "$PATCH" || { echo "patch does not apply" >&2; exit 2; }
trap 'git -C /repo checkout -- . ; git -C /repo clean -fdq src tests ; git -C "$HERE" checkout -- evidence 2>/dev/null' EXIT
for ID in "$@"; do
    OUT=$("$HERE/check" "$ID" --tier quick 2>&1)
    RC=$?
    echo "== $ID exit=$RC"
    echo "$OUT" | grep -E "^(VIOLATION|  class=|OK |HARNESS)" | cut -c1-400
done
