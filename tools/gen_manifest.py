#!/usr/bin/env python3
"""Writes /verif/MANIFEST.json from the table below (single source of truth)."""
import json, os, subprocess

ROOT = os.path.dirname(os.path.dirname(os.path.abspath(__file__)))

def repo_commits(prefix):
    out = subprocess.run(["git", "-C", "/repo", "log", "--format=%H %s"], capture_output=True, text=True).stdout
    return [l.split()[0] for l in out.splitlines() if l.split(" ", 1)[1].startswith(prefix)]

CLAIMED = {
    # id: (engine, level, technique, text, note, design_ref)
    "C01": ("hist", "exploration",
            "deterministic simulation: seeded operation histories with simulator-chosen handle provenance, invariant monitor after every call (one task; lock seam active)",
            "Seeded search over histories of edge operations on digraph and sync_digraph; after every call the mirror invariant (per ordered pair the value sequences of the source's out-list and the target's in-list agree; degrees, root/leaf/orphan, is_connected, find_* of both endpoints describe the same edge set) is evaluated on the real nodes through the public API. Sampling, not proof.",
            "Trusted: the invariant evaluator in sim/gsim/src/world.rs; nodes are kept alive by the harness for the whole run.",
            "DESIGN.md §4 C01/C02"),
    "C02": ("hist", "exploration",
            "deterministic simulation: seeded operation histories with simulator-chosen handle provenance, invariant monitor after every call (one task; lock seam active)",
            "Seeded search over histories on ungraph and sync_ungraph (either endpoint as caller, self-loops, parallel edges in both orientations, failing calls); after every call the symmetry invariant is evaluated on the real nodes. Sampling, not proof.",
            "Trusted: the invariant evaluator in sim/gsim/src/world.rs; nodes are kept alive by the harness.",
            "DESIGN.md §4 C01/C02"),
    "C03": ("hist", "exploration",
            "deterministic simulation: seeded histories checked call-by-call against an executable reference multigraph; lock seam turns self-deadlock into a reported event",
            "Every call of a seeded history (all four flavours, every handle provenance) is compared with the sequential meaning C03 states, the whole graph is read back from both endpoints after each call, and panics / self-deadlocks / step-budget overruns are verdicts. Sampling, not proof.",
            "Trusted: the reference model (sim/gsim/src/model.rs), the single-task lock observer. One task by construction (the plain flavours are !Send).",
            "DESIGN.md §4 C03"),
    "C17": ("conc", "exploration",
            "deterministic simulation: simulated caller threads under a seeded baton-passing scheduler over the lock seam (every interleaving of lock acquisitions and the RwLock queueing policy decided by the PRNG), serialisability check against a reference model, minimised replayable schedule; second stage: the shipped sync flavours (guard off, std locks) interpreted by Miri under its seeded preemptive scheduler (-Zmiri-seed, -Zmiri-preemption-rate), which reports data races, undefined behaviour, deadlocks and leaks",
            "2-4 simulated caller threads run seeded scripts of mutations, queries, iteration and traversals on shared sync nodes; the scheduler decides who runs at every lock acquisition (uniform / PCT / sticky / serial / one-placed-pause policies, writer preference on or off; rare hub scenarios with lists of 65-300 and of 4097-4400 entries). Verdicts: deadlock (no task runnable), step-budget overrun, panic or poisoned lock, quiescent mirror/symmetry invariant, and existence of a sequential order of the mutating calls that explains every return value and the final graph. Seeded schedule search, not exhaustive. Second stage (msim): 192 (quick) / 6000 (thorough) executions of small thread scenarios (1-4 nodes, 2-3 threads, 1-4 calls each, three schedules per scenario) under Miri: data race, undefined behaviour, deadlock, panic, quiescent invariant.",
            "Trusted: scheduler and lock model (cross-checked against the real lock at every grant), reference model. Context switches only at lock acquisitions (all shared mutable state of the sync flavours is under those locks). Nodes kept alive by the harness. msim stage: Miri's scheduler and race detector are trusted; its scenarios are tiny.",
            "DESIGN.md §4 C17"),
    "C20": ("inject", "exploration",
            "deterministic simulation: re-entrant interleaving of a loop/traversal with a script of operations, the simulator deciding at every step which operations fire; lock seam reports a guard kept across a step as self-deadlock; per-step oracle against the reference model",
            "Hosts: every edge iterator and every traversal kind/mode with for_each or filter, all four flavours. A seeded script of edge operations (on the cursor's endpoints and on other nodes, through every handle provenance), queries, nested iteration/searches and container calls fires at simulator-chosen steps. Verdicts: panic, self-deadlock, yielded edge not alive at that moment, injected call disagreeing with the reference model, no termination within a bound after the last injection, graph != model after the loop. A host that fails on a frozen graph (no injection) is not a C20 verdict.",
            "Trusted: reference model, single-task lock observer. One task: the interleaving under test is re-entrancy, not threads.",
            "DESIGN.md §4 C20"),
    "C11": ("scc", "exploration",
            "deterministic simulation of the container's iteration order: hash seam (ahash key source owned by the simulator) x seeded insertion orders, several container instances per graph, reference SCC partition",
            "scc() of digraph and sync_digraph containers is compared, as a set of sets, with the mutual-reachability classes computed by a reachability closure, for several container instances per seeded graph, each with its own simulated hash seed and insertion order (the configuration the property quantifies over); in one scenario of six the instances hold the same node objects.",
            "Trusted: the reachability-closure reference; the hash seam really determines iteration order (checked by the determinism self-test and the order-differs probe).",
            "DESIGN.md §4 C11"),
    "C12": ("roundtrip", "exploration",
            "deterministic simulation: hash seam on both the serialising and the deserialising side, simulated Read/Write streams with benign (short transfers, EINTR) and hard (I/O error, write-zero, EOF at byte k) faults in separate configurations",
            "Seeded graphs in all four containers, JSON and CBOR, are serialised and deserialised under simulator-chosen container orders and stream behaviour; the copy must have the same keys, node values and per-node ordered out-lists (directed) or incident multisets (undirected) and satisfy the mirror/symmetry invariant; under a hard stream fault the call returns Err or an equal graph and never panics.",
            "Trusted: canonicalisation of a container through the public iterators. Containers are closed under neighbours (precondition).",
            "DESIGN.md §4 C12"),
    "C13": ("untrusted", "fault_enumeration",
            "fault injection on stored documents: every truncation offset and every structural mutation of each seeded base document enumerated, seeded byte damage, delivery through a faulty simulated reader; oracle is the property's disjunction",
            "For every seeded base document (four container types, JSON and CBOR) all truncation offsets and all structural mutations of the document tree are enumerated, plus seeded byte damage; each mutated document is deserialised (a third through a faulty reader). Verdicts: panic/hang; Ok(graph) that violates mirror/symmetry, lists a non-member, or contains a node or edge the document does not declare (independent strict parse); Ok although a listed edge names an undeclared key.",
            "Trusted: the independent strict parse of the mutated document into plain tuples. Documents that cannot be read as (nodes, edges) at all are only checked for no-panic and well-formedness of an Ok result.",
            "DESIGN.md §4 C13"),
    "C18": ("container", "exploration",
            "deterministic simulation: seeded histories of container calls interleaved with edge operations, under simulator-owned hash seeds (container iteration order, several instances), checked call by call against a map model and the reference multigraph",
            "Each of the four containers is driven through seeded histories (insert of fresh and present keys and of a distinct node object with a present key, remove, get, index, contains, len, is_empty, to_vec, iter, roots/leaves/orphans, both DOT exports with seeded attribute callbacks, rebuilding as a new instance with another hash seed) interleaved with edge operations made through container handles; every call is compared with a BTreeMap model, views with the reference multigraph, DOT text is parsed into node and edge statements.",
            "Trusted: the map model and the DOT statement parser in sim/gsim/src/engines/container.rs.",
            "DESIGN.md §4 C18"),
    "C19": ("lifetime", "exploration",
            "deterministic simulation of handle lifetime: drop placement (order, and thread in the sync flavours) chosen by the simulator; drop-counting payload registry checked after every drop and at the end; second stage: concurrent handle traffic and a concurrent tear-down (last handles of one node dropped on different threads) of the shipped sync flavours interpreted by Miri under its seeded scheduler - racing reference counts, use after free and leaks are reported by the interpreter",
            "Seeded construction histories (cycles, self-loops, parallel edges), handles taken from every source (clones, iterated edges, paths, cycles, found nodes, orderings, containers, to_vec, scc), then one drop at a time in a simulator-chosen order; after each drop no value of a node with a live handle has been released and held results stay usable; at the end every node value and every edge-value instance has been released exactly once. Second stage (msim): 192 (quick) / 6000 (thorough) Miri executions of 2-3 threads cloning, finding, iterating and dropping handles of shared sync nodes, then dropping the last handles of every node concurrently.",
            "Trusted: the payload registry (sim/gsim/src/payload.rs). In gsim cross-thread drops are sequential; reference counts that race are what the msim stage (Miri) decides, on small scenarios.",
            "DESIGN.md §4 C19"),
    "C15": ("twin", "exploration",
            "deterministic simulation used as a differential harness: the same seeded call history and the same simulated hash seed on a plain flavour and its sync twin, event logs diffed call by call, minimised replayable history",
            "One seeded single-threaded call sequence over the whole API common to both flavours is executed on digraph and sync_digraph (resp. ungraph and sync_ungraph) and the results (keys, values, errors, traversal output, canonicalised container-ordered output and serialised form) are compared call by call. Detects one textual copy drifting from its twin; decides nothing about the algorithms themselves.",
            "By the property's own restriction there is no schedule or fault: the simulator contributes the history, the hash seam and minimisation. Panic messages are not compared.",
            "DESIGN.md §4 C15"),
}

NOT_APPLICABLE = {
    "C04": "pure function of (frozen graph, root, target, filter): no schedule, clock, fault or interleaving for a simulator to own (DESIGN.md §6)",
    "C05": "pure function of (frozen graph, root, target, filter): nothing for a simulator to schedule or fault (DESIGN.md §6)",
    "C06": "expansion order and comparison operators are pure functions of graph and (immutable) node values (DESIGN.md §6)",
    "C07": "callback multiplicity and filter exclusion are pure functions of graph, root and predicate (DESIGN.md §6)",
    "C08": "transpose() equivalence is a pure relation between two evaluations on frozen graphs (DESIGN.md §6)",
    "C09": "search_cycle soundness/completeness is a pure function of graph and root (DESIGN.md §6)",
    "C10": "pre/post-order validity is a pure function of graph and root (DESIGN.md §6)",
    "C14": "macro expansion is decided at compile time; nothing executes under a scheduler (DESIGN.md §6)",
    "C16": "Send/Sync bounds are decided by the trait solver at compile time for all instantiations (DESIGN.md §6)",
}

PENDING = {}

def main():
    props = [json.loads(l)["id"] for l in open(os.path.join(ROOT, "properties.jsonl"))]
    checks = []
    for pid in props:
        if pid in CLAIMED:
            eng, level, tech, text, note, ref = CLAIMED[pid]
            checks.append({
                "property_id": pid,
                "quick_cmd": f"./check {pid} --tier quick",
                "thorough_cmd": f"./check {pid} --tier thorough",
                "evidence_file": f"/verif/evidence/{pid}.json",
                "replay_cmd_template": f"./check {pid} --replay {{path}}",
                "engine": "gsim",
                "level_claimed": {"category": level, "text": text, "design_ref": ref},
                "level_note": note,
                "technique": tech,
            })
    na = []
    for pid in props:
        if pid in CLAIMED:
            continue
        reason = NOT_APPLICABLE.get(pid) or PENDING.get(pid) or "check not built yet (work in progress); see DESIGN.md §2"
        na.append({"property_id": pid, "reason": reason})
    manifest = {
        "version": 1,
        "setup_cmd": "cd /verif/sim && CARGO_NET_OFFLINE=true cargo build --release --offline && (cd /verif/msim && CARGO_NET_OFFLINE=true cargo +nightly miri setup >/dev/null 2>&1 || true)",
        "hooks": {
            "guard": "gdsl_verif",
            "enable": "rustc --cfg gdsl_verif, set in /verif/sim/.cargo/config.toml; gdsl is built from /repo/src through the shadow manifest /verif/sim/gdsl-shadow/Cargo.toml",
            "baseline_off_cmd": "cd /repo && cargo test --workspace --no-fail-fast --offline",
            "source_commits": repo_commits("verif hook"),
            "add_only": False,
        },
        "engines": [{
            "name": "gsim",
            "path": "/verif/sim/gsim",
            "serves_properties": sorted(CLAIMED),
            "kind_free_text": "seeded deterministic simulator running the real gdsl code: baton-passing scheduler over a lock seam, hash-order seam, key seam, simulated byte streams, handle-drop placement, reference multigraph model, minimiser and replay files",
        }, {
            "name": "msim",
            "path": "/verif/msim",
            "serves_properties": ["C17", "C19"],
            "kind_free_text": "second stage of the C17 and C19 checks: small thread scenarios on the shipped sync flavours (guard off) interpreted by Miri; schedule = f(-Zmiri-seed, -Zmiri-preemption-rate); reports data races, undefined behaviour, deadlocks, leaks; scenario text minimised, replay = scenario text + Miri seed",
        }],
        "checks": checks,
        "not_applicable": na,
        "notes": "All checks: ./check <ID> [--tier quick|thorough], honouring VERIF_SEED and VERIF_TIER; exit 0 held / 1 VIOLATION / 2 harness error. Replay files under /verif/replay. Known findings and fixed defects: /verif/known_findings.json.",
    }
    with open(os.path.join(ROOT, "MANIFEST.json"), "w") as f:
        json.dump(manifest, f, indent=1)
        f.write("\n")

if __name__ == "__main__":
    main()
