#!/bin/sh
# usage: tools/keep_round.sh <list>
# <list>: one line per change, fields separated by '|':
#   seeded-id|property|worktree|mutant-dir|checks (space separated)|what it needs to manifest
# Runs tools/keep_mutant.py for each line, one after the other (each applies its patch to /repo and
# undoes it); run tools/confirm_round.sh first so that the scratch worktrees are confirmed side by side.
HERE=$(cd "$(dirname "$0")/.." && pwd)
while IFS='|' read -r id prop wt mdir checks needs; do
  [ -z "$id" ] && continue
  # shellcheck disable=SC2086
  python3 "$HERE/tools/keep_mutant.py" "$id" "$prop" "$wt" "$mdir" "$needs" $checks 2>&1 | grep -E "^(kept|not confirmed|== |  class)" | cut -c1-260
done < "$1"
echo ROUND-DONE
