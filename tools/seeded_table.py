#!/usr/bin/env python3
"""Prints the markdown table of /verif/seeded/*/meta.json (which checks catch which change)."""
import json, glob, os
root = os.path.dirname(os.path.dirname(os.path.abspath(__file__)))
rows = []
for f in sorted(glob.glob(os.path.join(root, "seeded", "*", "meta.json"))):
    m = json.load(open(f))
    res = m["checks_run_against_it"]["results"]
    caught = ", ".join(f"{k} ({(v.get('violation') or '').split(' detail=')[0].replace('class=','')})" for k, v in sorted(res.items()) if v["exit"] == 1)
    missed = ", ".join(k for k, v in sorted(res.items()) if v["exit"] == 0) or "—"
    rows.append(f"| {m['id']} | {m['breaks_property']} | {m['needs_to_manifest']} | {caught or '—'} | {missed} |")
print("| seeded change | breaks | what it needs to manifest | caught by (violation class) | run but silent |")
print("|---|---|---|---|---|")
print("\n".join(rows))
