#!/usr/bin/env python3
"""Rewrites the seeded-change table in DESIGN.md from seeded/*/meta.json."""
import os, re, subprocess
root = os.path.dirname(os.path.dirname(os.path.abspath(__file__)))
table = subprocess.run(["python3", os.path.join(root, "tools/seeded_table.py")], capture_output=True, text=True).stdout
p = os.path.join(root, "DESIGN.md")
s = open(p).read()
s = re.sub(r"<!-- SEEDED_TABLE_BEGIN -->.*?<!-- SEEDED_TABLE_END -->", "<!-- SEEDED_TABLE_BEGIN -->\n" + table + "<!-- SEEDED_TABLE_END -->", s, flags=re.S)
open(p, "w").write(s)
