#!/usr/bin/env python3
"""usage: keep_mutant.py <seeded-id> <property> <worktree> <mutant-dir> "<what it needs to manifest>" <check-id>...
Confirms a seeded change in its scratch worktree, runs the listed quick checks against it (applied to
/repo and undone straight afterwards) and stores it as /verif/seeded/<seeded-id>/."""
import json, os, shutil, subprocess, sys, re

sid, prop, wt, mdir, needs = sys.argv[1:6]
checks = sys.argv[6:]
root = os.path.dirname(os.path.dirname(os.path.abspath(__file__)))
dst = os.path.join(root, "seeded", sid)

pre = os.path.join(mdir, "confirm.txt")
if os.path.exists(pre):
    # confirmed beforehand (tools/confirm_round.sh runs the scratch worktrees side by side)
    confirm_lines = [l for l in open(pre).read().splitlines() if l.strip()]
    rc = 0 if confirm_lines and confirm_lines[-1] == "CONFIRMED" else 1
else:
    c = subprocess.run([os.path.join(root, "tools/confirm_mutant.sh"), wt, mdir], capture_output=True, text=True)
    confirm_lines = [l for l in c.stdout.splitlines() if l.strip()]
    rc = c.returncode
print("\n".join(confirm_lines))
if rc != 0:
    print("not confirmed: not kept")
    sys.exit(1)
t = subprocess.run([os.path.join(root, "tools/try_mutant.sh"), os.path.join(mdir, "patch.diff")] + checks, capture_output=True, text=True)
print(t.stdout)
results = {}
cur = None
for l in t.stdout.splitlines():
    m = re.match(r"== (\S+) exit=(\d+)", l)
    if m:
        cur = m.group(1)
        results[cur] = {"exit": int(m.group(2))}
    elif cur and l.strip().startswith("class="):
        results[cur]["violation"] = l.strip()[:300]
os.makedirs(dst, exist_ok=True)
shutil.copy(os.path.join(mdir, "patch.diff"), os.path.join(dst, "patch.diff"))
shutil.copy(os.path.join(mdir, "demo.rs"), os.path.join(dst, "demo.rs"))
if os.path.exists(os.path.join(mdir, "README.md")):
    shutil.copy(os.path.join(mdir, "README.md"), os.path.join(dst, "author_notes.md"))
meta = {
    "id": sid,
    "breaks_property": prop,
    "needs_to_manifest": needs,
    "origin": "written by a fresh sub-agent given only the property text and a scratch worktree of /repo",
    "confirmed_in_scratch_worktree": {
        "commands": [
            "cp demo.rs tests/zz_demo.rs; cargo test --offline --test zz_demo   (unchanged sources: must pass)",
            "git apply patch.diff; cargo test --offline --test zz_demo          (must fail)",
            "rm tests/zz_demo.rs; cargo test --workspace --no-fail-fast --offline (existing suite: must pass)",
        ],
        "outcome": confirm_lines,
    },
    "checks_run_against_it": {"how": "tools/try_mutant.sh: git -C /repo apply patch.diff; ./check <ID> --tier quick; git -C /repo checkout -- .", "results": results},
    "caught_by": sorted(k for k, v in results.items() if v["exit"] == 1),
    "missed_by": sorted(k for k, v in results.items() if v["exit"] == 0),
}
json.dump(meta, open(os.path.join(dst, "meta.json"), "w"), indent=1)
print("kept as", dst, "caught_by", meta["caught_by"], "missed_by", meta["missed_by"])
