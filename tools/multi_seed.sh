#!/bin/sh
# usage: tools/multi_seed.sh <seed> [<seed> ...]   — every quick check on the unchanged tree under other seeds
# (no-false-alarm direction). Evidence files are restored from git afterwards.
HERE=$(cd "$(dirname "$0")/.." && pwd)
trap 'git -C "$HERE" checkout -- evidence 2>/dev/null' EXIT
BAD=0
for S in "$@"; do
  for ID in C01 C02 C03 C11 C12 C13 C15 C17 C18 C19 C20; do
    OUT=$(VERIF_SEED=$S "$HERE/check" "$ID" --tier quick 2>&1); RC=$?
    echo "seed=$S $ID exit=$RC $(echo "$OUT" | grep -E '^(OK|VIOLATION|HARNESS)' | cut -c1-160)"
    [ $RC -ne 0 ] && BAD=$((BAD+1))
  done
done
echo "non-zero exits: $BAD"
