#!/usr/bin/env python3
"""usage: run_seeded.py [--own] [id-prefix ...]
--own: run only the check of the property each change was written against (the other recorded
results are kept as they are).
Re-runs, for every kept seeded change (or those whose id starts with a given prefix), the quick checks
recorded in its meta.json against it (tools/try_mutant.sh) and rewrites the results in meta.json."""
import json, glob, os, re, subprocess, sys
root = os.path.dirname(os.path.dirname(os.path.abspath(__file__)))
own_only = '--own' in sys.argv
sel = [a for a in sys.argv[1:] if a not in ('--own', '--fast')]
bad = 0
for f in sorted(glob.glob(os.path.join(root, "seeded", "*", "meta.json")) + glob.glob(os.path.join(root, "regress", "*", "meta.json")) + glob.glob(os.path.join(root, "probes", "*", "meta.json"))):
    m = json.load(open(f))
    if sel and not any(m["id"].startswith(s) for s in sel):
        continue
    checks = sorted(set(m["checks_run_against_it"]["results"].keys()) | {m["breaks_property"]})
    if own_only:
        checks = [m["breaks_property"]]
    env = dict(os.environ)
    if '--fast' in sys.argv:
        env['GSIM_MIN_BUDGET_S'] = '3'
    t = subprocess.run([os.path.join(root, "tools/try_mutant.sh"), os.path.join(os.path.dirname(f), "patch.diff")] + checks, capture_output=True, text=True, env=env)
    results, cur = {}, None
    for l in t.stdout.splitlines():
        mm = re.match(r"== (\S+) exit=(\d+)", l)
        if mm:
            cur = mm.group(1)
            results[cur] = {"exit": int(mm.group(2))}
        elif cur and l.strip().startswith("class="):
            results[cur]["violation"] = l.strip()[:300]
    if own_only:
        merged = dict(m["checks_run_against_it"]["results"])
        merged.update(results)
        results = merged
    m["checks_run_against_it"]["results"] = results
    m["caught_by"] = sorted(k for k, v in results.items() if v["exit"] == 1)
    m["missed_by"] = sorted(k for k, v in results.items() if v["exit"] == 0)
    m["harness_errors"] = sorted(k for k, v in results.items() if v["exit"] not in (0, 1))
    json.dump(m, open(f, "w"), indent=1)
    own = results.get(m["breaks_property"], {}).get("exit")
    flag = "" if own == 1 else "   <-- NOT caught by its own property's check"
    if own != 1:
        bad += 1
    print(m["id"], "caught_by", m["caught_by"], "missed_by", m["missed_by"], "errors", m["harness_errors"], flag, flush=True)
print("not caught by own check:", bad)
