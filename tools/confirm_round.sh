#!/bin/sh
# usage: tools/confirm_round.sh <worktree-prefix>   (e.g. /tmp/w5-)
# Confirms MUTANTS/A and MUTANTS/B of every scratch worktree <prefix>* side by side (one job per
# worktree) and leaves the outcome in MUTANTS/<x>/confirm.txt for tools/keep_mutant.py.
HERE=$(cd "$(dirname "$0")" && pwd)
for wt in "$1"*; do
  ( for m in A B C D; do [ -d "$wt/MUTANTS/$m" ] || continue; "$HERE/confirm_mutant.sh" "$wt" "$wt/MUTANTS/$m" > "$wt/MUTANTS/$m/confirm.txt" 2>&1; done ) &
done
wait
for wt in "$1"*; do for m in A B C D; do [ -d "$wt/MUTANTS/$m" ] || continue; echo "$wt $m: $(tail -1 "$wt/MUTANTS/$m/confirm.txt")"; done; done
