#!/bin/sh
# usage: tools/confirm_mutant.sh <worktree> <mutant-dir>
# Confirms in the scratch worktree: (1) demo passes without the change, (2) with the change the
# crate compiles and the existing suite passes, (3) the demo fails with the change.
WT="$1"; M="$2"
export CARGO_NET_OFFLINE=true
cd "$WT" || exit 2
git checkout -q -- . ; rm -f tests/zz_demo.rs
cp "$M/demo.rs" tests/zz_demo.rs
timeout 600 cargo test --offline --test zz_demo >/tmp/confirm.$$.log 2>&1; R1=$?
echo "demo without change: exit=$R1 ($(grep -E '^test result' /tmp/confirm.$$.log | tail -1))"
git apply "$M/patch.diff" || { echo "patch does not apply"; exit 2; }
timeout 900 cargo test --offline --test zz_demo >/tmp/confirm.$$.log 2>&1; R3=$?
echo "demo with change:    exit=$R3 ($(grep -E '^test result' /tmp/confirm.$$.log | tail -1))"
rm -f tests/zz_demo.rs
timeout 900 cargo test --workspace --no-fail-fast --offline >/tmp/confirm.$$.log 2>&1; R2=$?
echo "suite with change:   exit=$R2 ($(grep -E '^test result' /tmp/confirm.$$.log | awk '{p+=$4; f+=$6} END {print p" passed, "f" failed"}'))"
git checkout -q -- . ; rm -f /tmp/confirm.$$.log
if [ $R1 -eq 0 ] && [ $R2 -eq 0 ] && [ $R3 -ne 0 ]; then echo CONFIRMED; exit 0; else echo NOT-CONFIRMED; exit 1; fi
